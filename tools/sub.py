import sys
f,old,new=sys.argv[1:4]
s=open(f).read(); assert s.count(old)>=1, 'pattern not found'; open(f,'w').write(s.replace(old,new,1))
