#!/usr/bin/env python3
"""
tools/seedtest.py confirm <seed-id> <src-dir>   copy patch/demo/meta from a sub-agent's worktree into
                                                /verif/seeded/<seed-id>/ after confirming it in a scratch worktree
tools/seedtest.py run <seed-id>|all [--inplace] apply the patch, run the property's quick check, undo; update RESULTS.md
                                                (default: on a scratch copy through VERIF_REPO; --inplace: git -C /repo apply)
"""
import json, os, shutil, subprocess, sys, time
VERIF = os.path.dirname(os.path.dirname(os.path.abspath(__file__)))
SEEDED = os.path.join(VERIF, 'seeded')
PY = '/venv/bin/python'


def sh(cmd, cwd=None, env=None, timeout=3600):
    p = subprocess.run(cmd, shell=True, cwd=cwd, env=env, capture_output=True, text=True, timeout=timeout)
    return p.returncode, p.stdout + p.stderr


def suite(cwd):
    rc, out = sh('%s -m pytest -q -p no:cacheprovider tests 2>&1 | tail -1' % PY, cwd=cwd)
    import re
    return re.sub(r' in [0-9.]+s.*$', '', out.strip())


def confirm(sid, src):
    dst = os.path.join(SEEDED, sid)
    os.makedirs(dst, exist_ok=True)
    for f in ('patch.diff', 'demo.py', 'meta.json'):
        if os.path.abspath(src) != os.path.abspath(dst):
            shutil.copy(os.path.join(src, f), os.path.join(dst, f))
    wt = '/tmp/seedconfirm-%s' % sid
    sh('git -C /repo worktree remove --force %s' % wt)
    rc, out = sh('git -C /repo worktree add -q --detach %s HEAD' % wt)
    assert rc == 0, out
    try:
        shutil.copy(os.path.join(dst, 'demo.py'), os.path.join(wt, 'demo.py'))
        base = suite(wt)
        rc0, out0 = sh('%s demo.py' % PY, cwd=wt, timeout=120)
        rc, out = sh('git apply %s' % os.path.join(dst, 'patch.diff'), cwd=wt)
        assert rc == 0, 'patch does not apply: ' + out
        rc_imp, _ = sh('%s -c "import txdbus.bus, txdbus.client"' % PY, cwd=wt)
        changed = suite(wt)
        rc1, out1 = sh('%s demo.py' % PY, cwd=wt, timeout=120)
    finally:
        sh('git -C /repo worktree remove --force %s' % wt)
    ok = (base == changed and rc0 == 0 and rc1 != 0 and rc_imp == 0)
    meta = json.load(open(os.path.join(dst, 'meta.json')))
    meta['confirmed'] = {'ok': ok, 'suite_unchanged': base, 'suite_with_change': changed,
                         'demo_without_change_rc': rc0, 'demo_with_change_rc': rc1,
                         'demo_with_change_tail': out1.strip().splitlines()[-3:],
                         'how': 'scratch worktree of /repo HEAD; pytest tail compared; demo.py run without and with the patch'}
    json.dump(meta, open(os.path.join(dst, 'meta.json'), 'w'), indent=1)
    print(sid, 'CONFIRMED' if ok else 'NOT CONFIRMED', base, '|', changed, rc0, rc1)
    if not ok:
        print(out0[-500:], out1[-500:])
    return ok


def run(sid, inplace=False, tier='quick'):
    dst = os.path.join(SEEDED, sid)
    meta = json.load(open(os.path.join(dst, 'meta.json')))
    prop = meta['property']
    patch = os.path.join(dst, 'patch.diff')
    t0 = time.time()
    if inplace:
        rc, out = sh('git -C /repo apply %s' % patch)
        assert rc == 0, out
        try:
            rc, out = sh('./check %s --tier %s --no-evidence' % (prop, tier), cwd=VERIF)
        finally:
            sh('git -C /repo checkout -- .')
    else:
        cp = '/tmp/seedrun-%s' % sid
        sh('rm -rf %s' % cp)
        sh('git -C /repo worktree add -q --detach %s HEAD' % cp)
        try:
            rc2, out2 = sh('git apply %s' % patch, cwd=cp)
            assert rc2 == 0, out2
            env = dict(os.environ, VERIF_REPO=cp)
            rc, out = sh('./check %s --tier %s --no-evidence' % (prop, tier), cwd=VERIF, env=env)
        finally:
            sh('git -C /repo worktree remove --force %s' % cp)
    viol = [l for l in out.splitlines() if l.startswith('VIOLATION')]
    detail = [l.strip() for l in out.splitlines() if l.startswith('   obligation=')]
    res = {'check': './check %s --tier %s' % (prop, tier), 'exit': rc, 'violations': len(viol), 'detected': rc == 1 and len(viol) > 0,
           'first': detail[0][:300] if detail else '', 'summary': out.strip().splitlines()[-1] if out.strip() else '',
           'wall_s': round(time.time() - t0, 1), 'mode': 'git -C /repo apply' if inplace else 'scratch worktree + VERIF_REPO'}
    meta.setdefault('runs', {})[tier] = res
    json.dump(meta, open(os.path.join(dst, 'meta.json'), 'w'), indent=1)
    print(sid, prop, 'DETECTED' if res['detected'] else 'MISSED', res['summary'])
    return res


def results_md():
    rows = []
    for sid in sorted(os.listdir(SEEDED)):
        mp = os.path.join(SEEDED, sid, 'meta.json')
        if not os.path.exists(mp):
            continue
        m = json.load(open(mp))
        r = m.get('runs', {})
        def cell(t):
            x = r.get(t)
            return '-' if not x else ('caught (%d obligations)' % x['violations'] if x['detected'] else 'MISSED')
        rows.append('| %s | %s | %s | %s | %s | %s |' % (sid, m['property'], m.get('summary', '').replace('|', '/')[:150],
                                                      m.get('needs', '').replace('|', '/')[:150], cell('quick'), cell('thorough')))
    with open(os.path.join(SEEDED, 'RESULTS.md'), 'w') as f:
        f.write('# Seeded changes and the checks that catch them\n\nGenerated by tools/seedtest.py. Each change was written by a fresh '
                'sub-agent from the property text only, confirmed here (suite unchanged, demo fails with / passes without).\n\n'
                '| seed | property | change | needs | quick check | thorough check |\n|---|---|---|---|---|---|\n' + '\n'.join(rows) + '\n')


if __name__ == '__main__':
    cmd = sys.argv[1]
    if cmd == 'confirm':
        confirm(sys.argv[2], sys.argv[3])
    elif cmd == 'run':
        ids = sorted(d for d in os.listdir(SEEDED) if os.path.isdir(os.path.join(SEEDED, d))) if sys.argv[2] == 'all' else [sys.argv[2]]
        tier = 'thorough' if '--thorough' in sys.argv else 'quick'
        for sid in ids:
            run(sid, '--inplace' in sys.argv, tier)
    results_md()
