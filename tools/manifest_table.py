SYM = 'bounded symbolic execution of the real code (CrossHair path exploration, z3 decides every branch)'
NOTE = ('Trusted: CrossHair 0.0.110 + the model corrections in vf/plugin.py, z3 5.1.0, the reference '
        'oracles in vf/ref_*.py. Each counterexample is replayed on the plain interpreter before it is '
        'reported. Bounds are listed in the evidence file (coverage.bounds, assumptions). Exit 0: held on everything '
        'explored (inconclusive obligations are listed); exit 1 + VIOLATION line: a replayed counterexample; exit 3 + '
        'HARNESS-ERROR line: no verdict (a counterexample that does not replay, or a tree without the private names the '
        'harness drives, vf/internals.json).')
CHECKS = {
    'C01': {'text': 'For each enumerated shape (signature x container lengths x offset x byte order x struct '
                    'form) the solver shows, for ALL leaf values (full integer ranges, all code points), that '
                    'the real unmarshal inverts the real marshal and the byte counts agree; a bounded claim, '
                    'not a proof: signatures up to 3-4 type codes, containers up to 2 elements.',
            'ref': 'DESIGN.md 2/C01', 'note': NOTE, 'technique': SYM},
    'C02': {'text': 'For each enumerated shape the solver shows, for ALL leaf values, that the bytes produced by the '
                    'real marshal equal byte-for-byte those of an independent codec written from the specification, '
                    'and that the real unmarshal decodes the reference encoding of all leaf values; plus the alignment '
                    'rule for every type code over an UNBOUNDED offset. Bounded by the shape family.',
            'ref': 'DESIGN.md 2/C02', 'note': NOTE, 'technique': SYM + ' against an independent reference codec'},
    'C19': {'text': 'The real genCompleteTypes runs on a symbolic signature string (every string of length <= 5/7 the '
                    'grammar accepts) and must equal an independent grammar-based decomposition; sigFromPy and the '
                    'variant round trip are explored for 60 value shapes with symbolic leaves.',
            'ref': 'DESIGN.md 2/C19', 'note': NOTE, 'technique': SYM},
    'C18': {'text': 'Each validator is translated from its current source into regular languages (accept / reject / '
                    'escapes) and z3 decides the three emptiness questions against the DBus grammar over ALL strings of '
                    'length <= 300; the constructors are explored with CrossHair using validator spies with symbolic '
                    'verdicts. The translator is re-validated against the real validators on every run.',
            'ref': 'DESIGN.md 1.5, 2/C18', 'note': NOTE + ' Additionally trusted: vf/regtrans.py (AST -> regular '
                    'language translator), validated per run on ~90 strings per validator.',
            'technique': 'source-to-SMT translation (regular languages) decided by z3; ' + SYM + ' for the constructors',
            'engine': 'crosshair-z3'},
    'C03': {'text': 'The real constructors run with symbolic serial counter, reply serial, flag bits and body leaves; the '
                    'bytes are checked clause by clause through an independent message decoder and parsed back by the real '
                    'parseMessage; foreign encodings (both byte orders, permuted fields, symbolic unknown field code) from '
                    'the reference encoder must parse to the same message; the size limit is decided on a symbolic limit.',
            'ref': 'DESIGN.md 2/C03', 'note': NOTE, 'technique': SYM + ' against an independent reference message codec'},
    'C04': {'text': 'The real dataReceived runs on a stream-view proxy whose message length fields (all values < 2^32, both '
                    'byte orders) and read sizes (unbounded) are solver variables: exactly the complete messages are handed '
                    'over once, in order, with the exact byte ranges; an inductive two-reads-equal-one-read lemma from an '
                    'arbitrary consistent state lifts the bound on the number of reads; real message bytes and the '
                    'handshake/binary boundary are explored with symbolic serials/flags.',
            'ref': 'DESIGN.md 2/C04', 'note': NOTE + ' Stream-view proxy (vf/streamview.py) stands in for bytes/struct in the '
                    'frame/step families.', 'technique': SYM + '; stream modelled by a symbolic-bounds proxy; one inductive step lemma'},
    'C05': {'text': 'Decoder steps are counted by wrappers installed from the harness; the real unmarshal / parseMessage run on '
                    'fully symbolic byte strings (10-14 bytes) under a hostile signature family, on valid messages with one byte '
                    'replaced by a symbolic value (every position) and on every truncation; the solver shows the step budget '
                    '(linear in input length for a fixed signature) is never exceeded and nothing but an Exception escapes.',
            'ref': 'DESIGN.md 2/C05', 'note': NOTE, 'technique': SYM + '; liveness turned into a step-budget assertion'},
    'C20': {'text': 'Real protocol and real message constructor; descriptor numbers and the arrival schedule (descriptor vs. '
                    'byte chunk at each step, within what a stream socket can produce) are solver variables; every message '
                    'must resolve to its own descriptors and consume exactly its declared count; sender ordering and the '
                    'per-call out-of-band list are asserted on a recording transport.',
            'ref': 'DESIGN.md 2/C20', 'note': NOTE + ' The schedule variables are finite selectors: for them the solver contributes '
                    'exhaustive coverage of the bounded schedule space rather than arithmetic.',
            'technique': SYM + ' with a symbolic arrival schedule'},
    'C06': {'text': 'One real handleAuthMessage call from an ARBITRARY authenticator state (state x reject counter x mechanism, '
                    'constrained only by a representation invariant) for 26 line shapes and a symbolic mechanism outcome is '
                    'compared with a reference model of the DBus server state machine - an inductive step covering line sequences '
                    'of any length; plus bounded runs from the real initial state through the real dataReceived, the three real '
                    'mechanisms (cookie hash uninterpreted) and real-client-vs-real-bus handshakes.',
            'ref': 'DESIGN.md 2/C06', 'note': NOTE + ' Mechanism I/O (pwd, keyring files, urandom, SHA-1) is stubbed as listed in the evidence.',
            'technique': SYM + '; inductive one-step check from an arbitrary state against a reference state machine'},
    'C07': {'text': 'One real ClientAuthenticator.handleAuthMessage call from an arbitrary state (mechanism, transport kind, '
                    'negotiation pending) over 17 server line shapes is checked against the clauses of the property (BEGIN only '
                    'after OK / finished negotiation, preference order, each mechanism once, failure on exhaustion or junk, some '
                    'reaction to every line); bounded runs from connectionMade through dataReceived; full handshakes against a '
                    'reference server for every subset of accepted mechanisms.',
            'ref': 'DESIGN.md 2/C07', 'note': NOTE, 'technique': SYM + '; inductive one-step check from an arbitrary state'},
    'C08': {'text': 'Real DBusClientConnection with n real outstanding calls receives solver-chosen event sequences (return / '
                    'error with a SYMBOLIC u32 reply serial, clock advances against deadlines, connection loss); after every event a '
                    'reference model decides which Deferred fired with what, and that bookkeeping and timers of completed calls are '
                    'gone. Bounded: n <= 2/3 calls, <= 3/4 events.',
            'ref': 'DESIGN.md 2/C08', 'note': NOTE + ' Virtual clock (twisted task.Clock) replaces the reactor.',
            'technique': SYM + ' of event sequences against a reference model'},
    'C10': {'text': 'Real handleMethodCallMessage on calls built by the real constructor and parsed by the real parser, with '
                    'symbolic serial (u32), expectReply and argument, and symbolic selectors for path / interface / member / '
                    'signature over an exported class with overloaded, inherited and caller-aware members; a reference dispatch '
                    'table decides replies (count, addressing, kind, encoding, error naming) and whether user code may run.',
            'ref': 'DESIGN.md 2/C10', 'note': NOTE, 'technique': SYM + ' against a reference dispatch table'},
    'C12': {'text': 'The real Rule.match / MessageRouter is compared with match-rule semantics written from the specification; for '
                    'path_namespace, argN and argNpath both the rule value and the message path/argument are SYMBOLIC strings over '
                    '{/, a, b} (every equal / prefix / sibling-prefix / trailing-slash relation up to the length bound); rule sets '
                    'with add/remove histories and a raising callback; the rule text produced by addMatch and parsed by the bus; '
                    'proxy signal subscriptions.',
            'ref': 'DESIGN.md 2/C12', 'note': NOTE, 'technique': SYM + ' with symbolic strings against reference match semantics'},
    'C16': {'text': 'Every history of <= 3/4 export / unexport operations over a path pool with parents, children, grandchildren and '
                    'prefix-sharing siblings is explored (operation selectors are solver variables; the solver exhausts the history '
                    'space), and after each the real handler is queried at every path: UnknownObject, Introspect child list, '
                    'GetManagedObjects content, InterfacesAdded/Removed signals, against a reference tree model.',
            'ref': 'DESIGN.md 2/C16', 'note': NOTE + ' All variables are finite selectors: the verdict is exhaustive within the bound; '
                    'the solver contributes path coverage, not arithmetic.',
            'technique': SYM + ' (selector-driven exhaustive histories) against a reference tree model'},
    'C17': {'text': 'For 12/36 property declarations (signature x access x emit mode, same name on a second inherited interface) '
                    'every history of 2/3 steps over 16 step kinds (local assignment, remote Get/Set/GetAll with right and wrong '
                    'names, values from boundary pools) is explored and compared with a reference store through the real message '
                    'constructor, parser and handler, including PropertiesChanged emission.',
            'ref': 'DESIGN.md 2/C17', 'note': NOTE + ' All variables are finite selectors: exhaustive within the bound; the solver '
                    'contributes path coverage, not arithmetic.',
            'technique': SYM + ' (selector-driven exhaustive histories) against a reference property store'},
    'C15': {'text': 'Interface definitions (0-3/6 methods, signals, properties; signatures by solver-chosen index from a pool '
                    'covering the grammar; access modes; replace / known-locally flags) go through the real XML generator and the '
                    'real XML parser and are compared member by member.',
            'ref': 'DESIGN.md 2/C15', 'note': NOTE + ' expat is C code: strings are concrete per path, all variables are finite '
                    'selectors; the solver contributes exhaustive coverage of the combinations in the bound (the per-argument split is '
                    'decided symbolically in C19).',
            'technique': SYM + ' (selector-driven) of generate-then-parse'},
    'C13': {'text': 'One operation of the real Bus (RequestName with a SYMBOLIC u32 flags word, ReleaseName, disconnect, lookups) from an '
                    'arbitrary valid name table (queue of up to 3 of 4 peers, symbolic allow-replacement bits, every caller position) is '
                    'compared with a reference name table - reply code, owner/queue, NameAcquired/NameLost recipients, invariant; plus '
                    'every operation history up to the bound from the empty table through real method-call messages.',
            'ref': 'DESIGN.md 2/C13', 'note': NOTE + ' Peers are stand-ins for BusProtocol; histories are selector-driven (exhaustive within the bound).',
            'technique': SYM + '; inductive one-step check from an arbitrary table against a reference model, plus exhaustive bounded histories'},
    'C14': {'text': 'Real Bus and BusProtocol objects exchange bytes on recording transports: an addressed message of each type with '
                    'SYMBOLIC serial, flags, body and a forged sender reaches exactly the owner of the destination once, unchanged except '
                    'for the true sender, and nobody else (rule holders included); every history up to the bound of connects, '
                    'disconnects, name requests, unicasts, bus calls and broadcasts is checked for delivery, order and unique names.',
            'ref': 'DESIGN.md 2/C14', 'note': NOTE + ' Authentication is skipped (C06); histories are selector-driven (exhaustive within the bound).',
            'technique': SYM + ' for message fields; exhaustive bounded event histories'},
    'C09': {'text': 'The real connect() over fake endpoints with a solver-chosen reachability vector; a scripted server transcript cut at '
                    'a solver-chosen crash point (every byte offset, four variants) must leave the connect Deferred fired exactly once; '
                    'an established connection with calls, timers and disconnect callbacks on the connection and on both kinds of '
                    'proxy loses its transport: everything fails once, nothing fires later.',
            'ref': 'DESIGN.md 2/C09', 'note': NOTE + ' All variables are finite selectors (crash points, vectors): exhaustive within the '
                    'bound; the solver contributes coverage, not arithmetic. Real sockets are replaced by fake endpoints.',
            'technique': SYM + ' (selector-driven: crash points and reachability vectors as solver variables)'},
    'C11': {'text': 'Real clients and a real Bus joined by in-memory byte pipes: a proxy call (explicit or introspected interface) with '
                    'SYMBOLIC arguments crosses four encode/decode hops and must run the method once with equal arguments and complete '
                    'with the equal value or a mirrored RemoteError; one or two concurrent calls under every delivery schedule up to the '
                    'bound (link order and cuts as solver-chosen selectors).',
            'ref': 'DESIGN.md 2/C11', 'note': NOTE + ' Whole-program runs are a weak target for the technique: bounds are small and stated '
                    '(2-3 clients, first 4-5 scheduling decisions).',
            'technique': SYM + ' of an end-to-end scenario with symbolic arguments and a symbolic delivery schedule'},
}
_TODO = 'check not built yet in this revision (planned, see DESIGN.md section 2)'
NOT_APPLICABLE = {('C%02d' % i): _TODO for i in range(1, 21)}
