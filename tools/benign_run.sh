#!/bin/sh
# usage: run.sh bNN C01 C02 ...
b=$1; shift
wt=/tmp/benign-run-$b
git -C /repo worktree remove --force $wt 2>/dev/null
git -C /repo worktree add -q --detach $wt HEAD || exit 9
git -C $wt apply /verif/benign/$b.diff || { echo "$b patch does not apply"; exit 9; }
for p in "$@"; do
  s=$(date +%s)
  VERIF_REPO=$wt /verif/check $p --tier quick --no-evidence > /tmp/benign-out-$b-$p.log 2>&1
  echo "$b $p rc=$? $(( $(date +%s)-s ))s $(tail -1 /tmp/benign-out-$b-$p.log)"
done
git -C /repo worktree remove --force $wt
