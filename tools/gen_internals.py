#!/usr/bin/env python3
"""Regenerate vf/internals.json: the private txdbus names each property's harness drives directly
(attribute accesses in vf/props/cXX.py, vf/fakes.py and helper modules they import from each other).
The runner refuses to give a verdict (exit 3, HARNESS-ERROR) on a tree where one of them is gone."""
import ast
import glob
import json
import os
import re

HERE = os.path.dirname(os.path.dirname(os.path.abspath(__file__)))
REPO = os.environ.get('VERIF_REPO', '/repo')


def names(path):
    tree = ast.parse(open(path).read())
    out = set()
    for n in ast.walk(tree):
        if isinstance(n, ast.Attribute) and n.attr.startswith('_') and not n.attr.startswith('__'):
            out.add(n.attr)
        if (isinstance(n, ast.Call) and getattr(n.func, 'id', None) in ('setattr', 'getattr', 'hasattr')
                and len(n.args) > 1 and isinstance(n.args[1], ast.Constant)
                and isinstance(n.args[1].value, str) and n.args[1].value.startswith('_')):
            out.add(n.args[1].value)
    return out


def main():
    src = ''.join(open(f).read() for f in glob.glob(os.path.join(REPO, 'txdbus', '*.py')))
    idents = set(re.findall(r'\b_[A-Za-z][A-Za-z0-9_]*\b', src))
    files = sorted(glob.glob(os.path.join(HERE, 'vf', 'props', 'c*.py')))
    per = {os.path.basename(f)[:-3]: names(f) for f in files}
    per['fakes'] = names(os.path.join(HERE, 'vf', 'fakes.py'))
    out = {}
    for f in files:
        k = os.path.basename(f)[:-3]
        s = set(per[k]) | per['fakes']
        text = open(f).read()
        for other in per:
            if other != k and re.search(r'\b%s\b' % other, text):
                s |= per[other]
        out[k.upper()] = sorted(n for n in s if n in idents)
    with open(os.path.join(HERE, 'vf', 'internals.json'), 'w') as fh:
        json.dump(out, fh, indent=1, sort_keys=True)
    for k, v in sorted(out.items()):
        print(k, ' '.join(v))


if __name__ == '__main__':
    main()
