#!/usr/bin/env python3
"""Regenerates /verif/MANIFEST.json from the table below (python3 tools/gen_manifest.py)."""
import json, os, sys
HERE = os.path.dirname(os.path.dirname(os.path.abspath(__file__)))
sys.path.insert(0, HERE)
from tools.manifest_table import CHECKS, NOT_APPLICABLE  # noqa

props = [json.loads(l)['id'] for l in open(os.path.join(HERE, 'properties.jsonl'))]
checks = []
for pid in props:
    if pid in CHECKS:
        c = CHECKS[pid]
        checks.append({
            'property_id': pid,
            'quick_cmd': './check %s --tier quick' % pid,
            'thorough_cmd': './check %s --tier thorough' % pid,
            'evidence_file': '/verif/evidence/%s.json' % pid,
            'replay_cmd_template': './check %s --replay {path}' % pid,
            'engine': c.get('engine', 'crosshair-z3'),
            'level_claimed': {'category': 'other', 'text': c['text'], 'design_ref': c['ref']},
            'level_note': c['note'],
            'technique': c['technique'],
        })
na = [{'property_id': p, 'reason': NOT_APPLICABLE[p]} for p in props if p not in CHECKS]
assert all(p in CHECKS or p in NOT_APPLICABLE for p in props)
m = {
    'version': 1,
    'setup_cmd': './bootstrap.sh',
    'hooks': {
        'guard': 'TXDBUS_VERIF',
        'enable': 'no source hooks: stubs are installed from the harness side (module globals / '
                  'instance attributes); checks import txdbus from /repo working tree at run time',
        'baseline_off_cmd': 'cd /repo && /venv/bin/python -m pytest -ra -q -p no:cacheprovider '
                            '--timeout=900 --continue-on-collection-errors',
        'source_commits': [],
        'add_only': True,
    },
    'engines': [
        {'name': 'crosshair-z3', 'path': '/verif/vf',
         'serves_properties': [p for p in props if p in CHECKS],
         'kind_free_text': 'bounded symbolic execution of the real txdbus bytecode with CrossHair '
                           '0.0.110 on z3 5.1.0, driven in-process by vf/runner.py; direct z3 regular-'
                           'language queries generated from the validators\' AST for C18'},
    ],
    'checks': checks,
    'not_applicable': na,
    'notes': 'Every check: ./check <id> --tier quick|thorough; exit 0 = held on everything explored, '
             'exit 1 + VIOLATION line = reproduced counterexample (replayed on the plain interpreter), '
             'exit 3 = harness error. See DESIGN.md.',
}
json.dump(m, open(os.path.join(HERE, 'MANIFEST.json'), 'w'), indent=1)
print('checks:', [c['property_id'] for c in checks], 'n/a:', [n['property_id'] for n in na])
