#!/bin/sh
# tools/run_all.sh quick|thorough  -> runs every registered check, prints one summary line each
cd "$(dirname "$0")/.."
tier=${1:-quick}
for p in $(python3 -c "import json;print(' '.join(c['property_id'] for c in json.load(open('MANIFEST.json'))['checks']))"); do
  start=$(date +%s)
  ./check $p --tier $tier > /tmp/verif-run-$p-$tier.log 2>&1
  rc=$?
  end=$(date +%s)
  echo "$p rc=$rc $((end-start))s $(tail -1 /tmp/verif-run-$p-$tier.log)"
done
