#!/bin/sh
# Builds /verif/.venv offline: a venv on /venv's python, /venv's site-packages visible
# through a .pth file, crosshair-tool (+ z3-solver 5.1.0) from the local wheelhouse.
set -e
cd "$(dirname "$0")"
if [ -x .venv/bin/python ] && .venv/bin/python -c "import crosshair, z3, twisted" 2>/dev/null; then
  exit 0
fi
(
  flock 9
  if [ -x .venv/bin/python ] && .venv/bin/python -c "import crosshair, z3, twisted" 2>/dev/null; then
    exit 0
  fi
  rm -rf .venv
  /venv/bin/python -m venv .venv
  SP=$(.venv/bin/python -c "import sysconfig; print(sysconfig.get_paths()['purelib'])")
  echo "import site; site.addsitedir('/venv/lib/python3.12/site-packages')" > "$SP/_verif.pth"
  PIP_NO_INDEX=1 .venv/bin/pip install -q --no-index --find-links /opt/veriftools/wheels crosshair-tool >/dev/null
  .venv/bin/python -c "import crosshair, z3, twisted"
) 9>.bootstrap.lock
