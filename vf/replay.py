"""
Concrete replay of a harness on given inputs, on the plain interpreter (no CrossHair
imported, no model patches).  Prints one JSON line {"outcome":..., "text":...}.

  python -m vf.replay --json '{"prop":..,"family":..,"params":..,"args":..}'
  python -m vf.replay --file replays/C05-0.json
"""
import argparse
import importlib
import json
import os
import signal
import sys

VERIF = os.path.dirname(os.path.dirname(os.path.abspath(__file__)))
REPO = os.environ.get('VERIF_REPO', '/repo')


def main():
    ap = argparse.ArgumentParser()
    ap.add_argument('--json')
    ap.add_argument('--file')
    a = ap.parse_args()
    if a.file:
        with open(a.file) as f:
            d = json.load(f)
        d = {'prop': d['property'], 'family': d['family'], 'params': d['params'],
             'args': d['args']}
    else:
        d = json.loads(a.json)
    for p in (VERIF, REPO):
        if p in sys.path:
            sys.path.remove(p)
    sys.path.insert(0, REPO)
    sys.path.insert(0, VERIF)
    from vf import engine
    from vf.runner import from_jsonable, quiet_twisted
    quiet_twisted()
    mod = importlib.import_module('vf.props.' + d['prop'].lower())
    engine.TWIN = bool(d.get('twin'))
    params = from_jsonable(d['params'], tuples=False)
    spec = mod.build(d['family'], params)
    args = from_jsonable(d['args'])

    def alarm(*_):
        print(json.dumps({'outcome': 'hang', 'text': 'did not finish in 30 s'}))
        sys.stdout.flush()
        os._exit(0)
    signal.signal(signal.SIGALRM, alarm)
    signal.alarm(30)
    oc, text = engine.run_concrete(spec.fn, args)
    signal.alarm(0)
    print(json.dumps({'outcome': oc, 'text': text}))
    if a.file:
        sys.exit(1 if oc in ('violation', 'error', 'hang') else 0)


if __name__ == '__main__':
    main()
