"""Reference model of the bus name table (DBus specification, RequestName / ReleaseName)."""
ALLOW, REPLACE, NOQUEUE = 1, 2, 4
PRIMARY, IN_QUEUE, EXISTS, ALREADY = 1, 2, 3, 4
RELEASED, NON_EXISTENT, NOT_OWNER = 1, 2, 3


class Table:
    """names: name -> list of [peer, allow_replacement] (head = owner)."""

    def __init__(self):
        self.names = {}

    def copy(self):
        t = Table()
        t.names = {n: [list(e) for e in q] for n, q in self.names.items()}
        return t

    def owner(self, name):
        q = self.names.get(name)
        return q[0][0] if q else None

    def queue(self, name):
        return [e[0] for e in self.names.get(name, [])]

    def request(self, name, peer, allow, replace, noqueue):
        """-> (code, events)   events: ('acquired', peer) / ('lost', peer)
        Where the specification leaves a choice (what happens to a replaced owner) the
        alternatives are returned by request_alternatives()."""
        q = self.names.get(name)
        if not q:
            self.names[name] = [[peer, allow]]
            return PRIMARY, [('acquired', peer)]
        if q[0][0] == peer:
            q[0][1] = allow
            return ALREADY, []
        if replace and q[0][1]:
            old = q[0][0]
            rest = [e for e in q[1:] if e[0] != peer]
            self.names[name] = [[peer, allow]] + rest
            return PRIMARY, [('lost', old), ('acquired', peer)]
        if noqueue:
            self.names[name] = [e for e in q if e[0] != peer]
            return EXISTS, []
        for e in q:
            if e[0] == peer:
                e[1] = allow
                break
        else:
            q.append([peer, allow])
        return IN_QUEUE, []

    def release(self, name, peer):
        q = self.names.get(name)
        if not q:
            return NON_EXISTENT, []
        if q[0][0] == peer:
            q.pop(0)
            ev = [('lost', peer)]
            if q:
                ev.append(('acquired', q[0][0]))
            else:
                del self.names[name]
            return RELEASED, ev
        for e in q:
            if e[0] == peer:
                q.remove(e)
                return RELEASED, []
        return NOT_OWNER, []

    def disconnect(self, peer):
        ev = []
        for name in sorted(self.names):
            q = self.names[name]
            if q[0][0] == peer:
                q.pop(0)
                if q:
                    ev.append(('acquired', q[0][0], name))
            self.names[name] = [e for e in q if e[0] != peer]
        for name in [n for n, q in self.names.items() if not q]:
            del self.names[name]
        return ev
