"""
Value templates for a DBus signature: concrete *shape* (container lengths, variant content
types, pool choices for o/g/d leaves and dict keys) with symbolic *leaves*.
Shared by C01, C02, C03, C19.

A template node is a JSON-able list:
  ['int', code] ['bool'] ['fd'] ['str', nchars] ['dbl', k] ['path', k] ['sig', k]
  ['arr', elem_ct, [nodes]]  ['struct', ct, [nodes]]  ['entry', ct, keynode, valnode]
  ['var', inner_ct, node]
Dict keys are concrete (['kint', code, value] / ['kstr', text] / ['kbool', v]): decoding builds
a real dict, and hashing a symbolic key would realise it value by value.
"""
import struct

from .ref_sig import ALIGN, BASIC, INT_RANGE, split, fields

DOUBLES = [0.0, -0.0, 1.5, float('inf'), float('-inf'), float('nan'),
           5e-324, 1.7976931348623157e308, -2.2250738585072014e-308]
PATHS = ['/', '/a', '/org/freedesktop/DBus', '/a_1/B2']
SIGS = ['', 'i', 'a{sv}', '(ii)', 'aai', 'y' * 127, 'd' * 128, 'ai' * 100, 'x' * 255]     # lengths around the 1-byte length field's sign bit and at the limit
KEY_INTS = {'y': [0, 255, 7], 'n': [-32768, 32767, -1], 'q': [0, 65535, 256],
            'i': [-2**31, 2**31 - 1, 0], 'u': [0, 2**32 - 1, 65536],
            'x': [-2**63, 2**63 - 1, -1], 't': [0, 2**64 - 1, 2**32], 'h': [0, 1, 2]}
KEY_STRS = ['', 'k', 'é€', 'key2', '\ufeffb']      # the last one starts with U+FEFF (a BOM to some codecs)
VARIANT_INNER = ['y', 'b', 'n', 'q', 'i', 'u', 'x', 't', 'd', 's', 'o', 'g',
                 'ai', '(is)', 'a{sy}', 'ay', 'as', '(y(bx))', 'av', 'aas']


class Ctx:
    """Deterministic round-robin choices so that different obligations hit different pools."""

    def __init__(self, seed=0, chars=2, leaves=6):
        self.n = seed
        self.chars = chars      # symbolic string characters still available
        self.leaves = leaves    # symbolic leaves still available

    def take_leaf(self):
        if self.leaves > 0:
            self.leaves -= 1
            return True
        return False

    def pick(self, seq):
        self.n += 1
        return seq[self.n % len(seq)]

    def idx(self, seq):
        self.n += 1
        return self.n % len(seq)


def template(ct, L, ctx, strlen=1, vdepth=1, forced_inner=None):
    c = ct[0]
    if c in INT_RANGE:
        if ctx.take_leaf():
            return ['int', c]
        return ['kint', c, ctx.pick(KEY_INTS[c])]
    if c == 'b':
        if ctx.take_leaf():
            return ['bool']
        return ['kbool', ctx.pick([True, False])]
    if c == 'h':
        if ctx.take_leaf():
            return ['fd']
        return ['kint', 'h', ctx.pick(KEY_INTS['h'])]
    if c == 's':
        if ctx.chars >= strlen and ctx.take_leaf():
            ctx.chars -= strlen
            return ['str', strlen]
        return ['kstr', ctx.pick(KEY_STRS)]
    if c == 'd':
        return ['dbl', ctx.idx(DOUBLES)]
    if c == 'o':
        return ['path', ctx.idx(PATHS)]
    if c == 'g':
        return ['sig', ctx.idx(SIGS)]
    if c == 'a':
        et = ct[1:]
        if et[0] == '{':
            kt, vt = fields(et)
            kids = []
            for i in range(L):
                kids.append(['entry', et, key_node(kt, i, ctx), template(vt, L, ctx, strlen, vdepth)])
            return ['arr', et, kids]
        return ['arr', et, [template(et, L, ctx, strlen, vdepth) for _ in range(L)]]
    if c == '(':
        return ['struct', ct, [template(f, L, ctx, strlen, vdepth) for f in fields(ct)]]
    if c == 'v':
        if forced_inner is not None:
            inner = forced_inner
        elif vdepth <= 0:
            inner = ctx.pick(['y', 'i', 's', 'u', 'x'])
        else:
            inner = ctx.pick(VARIANT_INNER)
        if inner == 'av':
            # inferred only for a list whose elements differ in Python type
            kid = ['arr', 'v', [['var', 'i', template('i', L, ctx)],
                                ['var', 's', template('s', L, ctx, strlen)]]]
            return ['var', inner, kid]
        # containers inside a variant are never empty: an empty list is *inferred* as 'av'
        return ['var', inner, template(inner, max(L, 1), ctx, strlen, vdepth - 1)]
    raise ValueError(ct)


def key_node(kt, i, ctx):
    # i-th key of a dict: keys of one dict are pairwise distinct
    c = kt[0]
    if c in KEY_INTS:
        pool = KEY_INTS[c]
        return ['kint', c, pool[i % len(pool)]]
    if c == 'b':
        return ['kbool', bool(i % 2)]
    if c == 's':
        return ['kstr', KEY_STRS[i % len(KEY_STRS)]]
    if c == 'o':
        return ['kpath', PATHS[i % len(PATHS)]]
    if c == 'g':
        return ['ksig', SIGS[i % len(SIGS)]]
    if c == 'd':
        return ['kdbl', [0.5, -1.0, 2.0][i % 3]]
    raise ValueError(kt)


def leaves(node, out=None):
    """Symbolic parameters, in traversal order: list of (kind, info)."""
    if out is None:
        out = []
    k = node[0]
    if k == 'int':
        out.append(('int', node[1]))
    elif k == 'bool':
        out.append(('bool', None))
    elif k == 'fd':
        out.append(('fd', None))
    elif k == 'str':
        out.append(('str', node[1]))
    elif k == 'arr':
        for ch in node[2]:
            leaves(ch, out)
    elif k == 'struct':
        for ch in node[2]:
            leaves(ch, out)
    elif k == 'entry':
        leaves(node[3], out)
    elif k == 'var':
        leaves(node[2], out)
    return out


def leaf_params(nodes, prefix='v'):
    params = []
    kinds = []
    for n in nodes:
        kinds.extend(leaves(n))
    for i, (kind, info) in enumerate(kinds):
        t = {'int': int, 'bool': bool, 'fd': int, 'str': str}[kind]
        params.append(('%s%d' % (prefix, i), t))
    return params, kinds


def assume_leaves(kinds, args, assume):
    for (kind, info), a in zip(kinds, args):
        if kind == 'int':
            lo, hi = INT_RANGE[info]
            assume(lo <= a <= hi)
        elif kind == 'fd':
            assume(0 <= a < 2 ** 31)
        elif kind == 'str':
            assume(len(a) == info)
            for ch in a:
                o = ord(ch)
                assume(o != 0)
                assume(not (0xD800 <= o <= 0xDFFF))


class _Obj:
    pass


def _wrap_struct(vals, form):
    if form == 1:
        return tuple(vals)
    if form == 2:
        o = _Obj()
        names = ['f%d' % i for i in range(len(vals))]
        for n, v in zip(names, vals):
            setattr(o, n, v)
        # declared in reverse attribute-creation order on purpose
        o.dbusOrder = names
        return o
    return list(vals)


def instantiate(node, it, marshal=None, form=0, in_variant=False, fds=None):
    """Consumes symbolic leaf values from iterator `it`.
    Returns (py_input, expected_decoded, ref_value)
      py_input         what a txdbus user would pass to marshal()
      expected_decoded what unmarshal must return (normal form)
      ref_value        the same value in ref_codec's encoder form
    in_variant: py_input must make sigFromPy infer exactly the node's type."""
    k = node[0]
    if k == 'int':
        v = next(it)
        if in_variant and not (node[1] == 'i' and form % 2 == 0):
            return marshal.variantClassMap[node[1]](v), v, v
        return v, v, v
    if k == 'bool':
        v = next(it)
        return v, v, v
    if k == 'fd':
        v = next(it)
        if fds is not None:
            fds.append(v)
        return v, v, v
    if k == 'str':
        v = next(it)
        return v, v, v
    if k == 'dbl':
        v = DOUBLES[node[1]]
        return v, v, v
    if k == 'path':
        v = PATHS[node[1]]
        return (marshal.ObjectPath(v) if in_variant else v), v, v
    if k == 'sig':
        v = SIGS[node[1]]
        return (marshal.Signature(v) if in_variant else v), v, v
    if k in ('kint',):
        v = node[2]
        if node[1] == 'h' and fds is not None:
            fds.append(v)
        return (marshal.variantClassMap[node[1]](v) if in_variant and node[1] != 'h' else v), v, v
    if k in ('kbool', 'kstr', 'kdbl'):
        return node[1], node[1], node[1]
    if k == 'kpath':
        return (marshal.ObjectPath(node[1]) if in_variant else node[1]), node[1], node[1]
    if k == 'ksig':
        return (marshal.Signature(node[1]) if in_variant else node[1]), node[1], node[1]
    if k == 'arr':
        et = node[1]
        if et[0] == '{':
            py, exp, ref = {}, {}, []
            pairs = []
            for ch in node[2]:
                kp, ke, kr = instantiate(ch[2], it, marshal, form, in_variant, fds)
                vp, ve, vr = instantiate(ch[3], it, marshal, form, in_variant, fds)
                py[kp] = vp
                exp[ke] = ve
                ref.append([kr, vr])
                pairs.append((kp, vp))
            if form == 1 and not in_variant:
                py = pairs               # marshal_array also accepts a list of pairs
            return py, exp, ref
        py, exp, ref = [], [], []
        for ch in node[2]:
            p, e, r = instantiate(ch, it, marshal, form, in_variant, fds)
            py.append(p)
            exp.append(e)
            ref.append(r)
        if form == 1 and not in_variant:
            py = tuple(py)
        return py, exp, ref
    if k == 'struct':
        py, exp, ref = [], [], []
        for ch in node[2]:
            p, e, r = instantiate(ch, it, marshal, form, in_variant, fds)
            py.append(p)
            exp.append(e)
            ref.append(r)
        if in_variant:
            return tuple(py), exp, ref
        return _wrap_struct(py, form), exp, ref
    if k == 'var':
        p, e, r = instantiate(node[2], it, marshal, form, True, fds)
        if in_variant:
            # a variant inside a variant-typed container: only reachable through 'av'
            return p, e, [node[1], r]
        return p, e, [node[1], r]
    raise ValueError(node)


def to_ref(ref):
    """Variants were built as [sig, value] lists (JSON-able); ref_codec wants tuples."""
    return ref


def deq(a, b):
    """Deep equality with floats compared by bit pattern (nan == nan, 0.0 != -0.0)."""
    if isinstance(a, float) or isinstance(b, float):
        if not (isinstance(a, float) and isinstance(b, float)):
            return False
        return struct.pack('<d', a) == struct.pack('<d', b)
    if isinstance(a, (list, tuple)):
        if not isinstance(b, (list, tuple)) or len(a) != len(b):
            return False
        for x, y in zip(a, b):
            if not deq(x, y):
                return False
        return True
    if isinstance(a, dict):
        if not isinstance(b, dict) or len(a) != len(b):
            return False
        for k in a:
            if k not in b or not deq(a[k], b[k]):
                return False
        return True
    return type_ok(a, b) and a == b


def type_ok(a, b):
    # bool vs int distinction matters for 'b'
    ba = isinstance(a, bool)
    bb = isinstance(b, bool)
    if ba != bb:
        return False
    if isinstance(a, str) != isinstance(b, str):
        return False
    return True


def witness_values(kinds, which):
    out = []
    for i, (kind, info) in enumerate(kinds):
        if kind == 'int':
            lo, hi = INT_RANGE[info]
            out.append([lo, hi, 0 if lo < 0 else 1, (hi // 3) + i][which % 4])
        elif kind == 'bool':
            out.append([False, True, True, False][(which + i) % 4])
        elif kind == 'fd':
            out.append([0, 2 ** 31 - 1, 3, 7 + i][which % 4])
        elif kind == 'str':
            base = ['a', 'é', '\ufeff', '\U0001f600'][(which + i) % 4]      # U+FEFF: 3 bytes, and a BOM to some codecs
            out.append(base * info)
    return tuple(out)
