"""
Translate txdbus's name validators, from their *current source*, into regular languages over z3's
character range and compare them with the DBus grammar (DESIGN.md 1.5).

For a validator `def f(n)` the translator computes three z3 Re terms
  ACCEPT  strings for which f returns normally
  REJECT  strings for which f raises MarshallingError
  ESCAPE  strings for which some other exception leaves f
Supported statement forms:  if <cond>: raise X(...)   |  try: <stmts> except Exc [as e]: raise Y(...)
                            |  call of another translated validator as a statement
Supported conditions: and / or / not, `lit in n`, `lit not in n`, n.startswith(lit), n.endswith(lit),
len(n) <op> k, n[k] == lit, n[k] != lit, n[k].isdigit(), RE.search(n) with RE a module-level compiled
pattern (converted from re._parser opcodes).  Anything else raises Untranslatable.
"""
import ast
import inspect
import re
import textwrap

import z3

MAXCHAR = 0x2FFFF     # z3's Unicode character range


class Untranslatable(Exception):
    pass


S = z3.StringSort()
RS = z3.ReSort(S)
ANY = z3.AllChar(RS)
FULL = z3.Full(RS)
EMPTY = z3.Empty(RS)
EPS = z3.Re(z3.StringVal(''))


def lit(s):
    return z3.Re(z3.StringVal(s))


def cat(*rs):
    rs = [r for r in rs]
    if len(rs) == 1:
        return rs[0]
    return z3.Concat(*rs)


def union(*rs):
    rs = list(rs)
    if not rs:
        return EMPTY
    if len(rs) == 1:
        return rs[0]
    return z3.Union(*rs)


def inter(*rs):
    rs = list(rs)
    if len(rs) == 1:
        return rs[0]
    return z3.Intersect(*rs)


def comp(r):
    return z3.Complement(r)


def exactly(n):
    return z3.Loop(ANY, n, n) if n > 0 else EPS


def at_least(n):
    return cat(exactly(n), FULL) if n > 0 else FULL


def at_most(n):
    if n <= 0:
        return EPS if n == 0 else EMPTY       # z3.Loop(r, 0, 0) means "no upper bound"
    return z3.Loop(ANY, 0, n)


def _ranges(pred):
    out = []
    start = None
    for c in range(MAXCHAR + 1):
        if 0xD800 <= c <= 0xDFFF:
            ok = False
        else:
            ok = pred(chr(c))
        if ok and start is None:
            start = c
        elif not ok and start is not None:
            out.append((start, c - 1))
            start = None
    if start is not None:
        out.append((start, MAXCHAR))
    return out


_cache = {}


def charclass(name):
    if name not in _cache:
        pred = {'isdigit': str.isdigit,
                'category_digit': lambda ch: re.match(r'\d', ch) is not None,
                'category_space': lambda ch: re.match(r'\s', ch) is not None,
                'category_word': lambda ch: re.match(r'\w', ch) is not None}[name]
        _cache[name] = _ranges(pred)
    return _cache[name]


def ranges_re(ranges):
    return union(*[z3.Range(z3.StringVal(chr(a)) if False else _ch(a), _ch(b)) for a, b in ranges])


def _ch(c):
    # z3 string literal for one code point
    return z3.StringVal(chr(c))


def range_re(a, b):
    return z3.Range(_ch(a), _ch(b))


# ------------------------------------------------------------------ python regex -> z3 Re

def _set_items(items):
    """IN items -> (list of ranges, negate)"""
    import re._constants as C
    neg = False
    rs = []
    for op, av in items:
        if op is C.NEGATE:
            neg = True
        elif op is C.LITERAL:
            rs.append((av, av))
        elif op is C.RANGE:
            rs.append((av[0], av[1]))
        elif op is C.CATEGORY:
            nm = str(av).lower()
            if nm in ('category_digit', 'category_space', 'category_word'):
                rs.extend(charclass(nm))
            else:
                raise Untranslatable('regex category %s' % av)
        else:
            raise Untranslatable('regex set item %s' % (op,))
    return rs, neg


def _neg_ranges(rs):
    rs = sorted(rs)
    out = []
    cur = 0
    for a, b in rs:
        if a > cur:
            out.append((cur, a - 1))
        cur = max(cur, b + 1)
    if cur <= MAXCHAR:
        out.append((cur, MAXCHAR))
    return out


def pattern_to_re(pat):
    """z3 Re for the *whole-match* language of a compiled pattern's body (no anchors)."""
    import re._parser as P
    import re._constants as C
    if pat.flags & ~re.UNICODE:
        raise Untranslatable('regex flags')
    tree = P.parse(pat.pattern, pat.flags)

    def conv(seq):
        parts = []
        for op, av in seq:
            if op is C.LITERAL:
                parts.append(lit(chr(av)))
            elif op is C.NOT_LITERAL:
                parts.append(ranges_re(_neg_ranges([(av, av)])))
            elif op is C.ANY:
                parts.append(ranges_re(_neg_ranges([(10, 10)])))
            elif op is C.IN:
                rs, neg = _set_items(av)
                parts.append(ranges_re(_neg_ranges(rs) if neg else sorted(rs)))
            elif op is C.CATEGORY:
                rs, _ = _set_items([(op, av)])
                parts.append(ranges_re(rs))
            elif op in (C.MAX_REPEAT, C.MIN_REPEAT):
                lo, hi, sub = av
                r = conv(sub)
                if hi is C.MAXREPEAT:
                    parts.append(cat(z3.Loop(r, lo, lo), z3.Star(r)) if lo else z3.Star(r))
                elif hi == 0:
                    parts.append(EPS)
                else:
                    parts.append(z3.Loop(r, lo, hi))
            elif op is C.SUBPATTERN:
                parts.append(conv(av[3]))
            elif op is C.BRANCH:
                parts.append(union(*[conv(b) for b in av[1]]))
            else:
                raise Untranslatable('regex op %s' % (op,))
        if not parts:
            return EPS
        return cat(*parts)
    return conv(tree)


# ------------------------------------------------------------------ validator AST -> languages

class Cond:
    """Languages on which a condition is true / false / raises."""

    def __init__(self, t, f, e=EMPTY):
        self.t, self.f, self.e = t, f, e


class Translator:
    def __init__(self, module, known=None):
        self.module = module
        self.known = known or {}     # name -> (ACCEPT, REJECT, ESCAPE)
        self.constructs = set()

    def translate(self, fn):
        src = textwrap.dedent(inspect.getsource(fn))
        tree = ast.parse(src).body[0]
        if not isinstance(tree, ast.FunctionDef) or len(tree.args.args) != 1:
            raise Untranslatable('validator must take one argument')
        self.var = tree.args.args[0].arg
        body = tree.body
        if body and isinstance(body[0], ast.Expr) and isinstance(body[0].value, ast.Constant):
            body = body[1:]
        alive, raised = self.block(body, FULL)
        accept = alive
        reject = union(*[l for k, l in raised if k == 'MarshallingError'])
        escape = union(*[l for k, l in raised if k != 'MarshallingError'])
        return accept, reject, escape

    # raised: list of (exception class name, language)
    def block(self, stmts, alive):
        raised = []
        for st in stmts:
            if isinstance(st, ast.If) and not st.orelse and self._is_raise_block(st.body):
                self.constructs.add('if-raise')
                c = self.cond(st.test)
                exc = self._raise_name(st.body[0])
                raised.append((exc, inter(alive, c.t)))
                raised.append(('IndexError', inter(alive, c.e)))
                alive = inter(alive, c.f)
            elif isinstance(st, ast.Try) and not st.orelse and not st.finalbody \
                    and len(st.handlers) == 1:
                self.constructs.add('try-except-raise')
                h = st.handlers[0]
                if not (isinstance(h.type, ast.Name) and self._is_raise_block(h.body)):
                    raise Untranslatable('except handler form')
                inner_alive, inner_raised = self.block(st.body, alive)
                newexc = self._raise_name(h.body[0])
                for k, l in inner_raised:
                    if self._catches(h.type.id, k):
                        raised.append((newexc, l))
                    else:
                        raised.append((k, l))
                alive = inner_alive
            elif isinstance(st, ast.Expr) and isinstance(st.value, ast.Call) \
                    and isinstance(st.value.func, ast.Name) and st.value.func.id in self.known \
                    and len(st.value.args) == 1 and self._is_var(st.value.args[0]):
                self.constructs.add('call-validator')
                a, r, e = self.known[st.value.func.id]
                raised.append(('MarshallingError', inter(alive, r)))
                raised.append(('Other', inter(alive, e)))
                alive = inter(alive, a)
            elif isinstance(st, ast.Pass):
                pass
            else:
                raise Untranslatable('statement %s' % ast.dump(st)[:80])
        return alive, raised

    @staticmethod
    def _catches(handler, exc):
        if handler in ('Exception', 'BaseException'):
            return True
        return handler == exc

    def _is_raise_block(self, body):
        return len(body) == 1 and isinstance(body[0], ast.Raise) and body[0].exc is not None

    def _raise_name(self, st):
        e = st.exc
        if isinstance(e, ast.Call):
            e = e.func
        if isinstance(e, ast.Name):
            return e.id
        if isinstance(e, ast.Attribute):
            return e.attr
        raise Untranslatable('raise form')

    def _is_var(self, node):
        return isinstance(node, ast.Name) and node.id == self.var

    def _is_tail(self, node):
        return (isinstance(node, ast.Subscript) and self._is_var(node.value)
                and isinstance(node.slice, ast.Slice) and node.slice.lower is not None
                and node.slice.upper is None and node.slice.step is None)

    def _const_str(self, node):
        if isinstance(node, ast.Constant) and isinstance(node.value, str):
            return node.value
        raise Untranslatable('string literal expected')

    def _index_lang(self, idx):
        """(prefix language before the indexed char, suffix after, language where index fails)"""
        if isinstance(idx, ast.UnaryOp) and isinstance(idx.op, ast.USub):
            k = -self._int(idx.operand)
        else:
            k = self._int(idx)
        if k >= 0:
            return exactly(k), FULL, at_most(k)
        return FULL, exactly(-k - 1), at_most(-k - 1)

    def _int(self, node):
        if isinstance(node, ast.Constant) and isinstance(node.value, int):
            return node.value
        raise Untranslatable('integer literal expected')

    def cond(self, node):
        if isinstance(node, ast.BoolOp):
            cs = [self.cond(v) for v in node.values]
            self.constructs.add('and' if isinstance(node.op, ast.And) else 'or')
            acc = cs[0]
            for c in cs[1:]:
                if isinstance(node.op, ast.And):
                    acc = Cond(inter(acc.t, c.t), union(acc.f, inter(acc.t, c.f)),
                               union(acc.e, inter(acc.t, c.e)))
                else:
                    acc = Cond(union(acc.t, inter(acc.f, c.t)), inter(acc.f, c.f),
                               union(acc.e, inter(acc.f, c.e)))
            return acc
        if isinstance(node, ast.UnaryOp) and isinstance(node.op, ast.Not):
            self.constructs.add('not')
            c = self.cond(node.operand)
            return Cond(c.f, c.t, c.e)
        if isinstance(node, ast.Compare) and len(node.ops) == 1:
            op, left, right = node.ops[0], node.left, node.comparators[0]
            # lit in n / lit not in n
            if isinstance(op, (ast.In, ast.NotIn)) and (self._is_var(right) or self._is_tail(right)):
                self.constructs.add('in')
                s = self._const_str(left)
                t = cat(FULL, lit(s), FULL)
                if not self._is_var(right):
                    # lit in n[k:]  (a slice never raises; shorter strings give '')
                    self.constructs.add('tail-slice')
                    k = self._int(right.slice.lower)
                    if k < 0:
                        raise Untranslatable('negative slice start')
                    t = cat(exactly(k), t)
                return Cond(t, comp(t)) if isinstance(op, ast.In) else Cond(comp(t), t)
            # len(n) <op> k
            if isinstance(left, ast.Call) and isinstance(left.func, ast.Name) and left.func.id == 'len' \
                    and len(left.args) == 1 and self._is_var(left.args[0]):
                self.constructs.add('len')
                k = self._int(right)
                if isinstance(op, ast.Gt):
                    t = at_least(k + 1)
                elif isinstance(op, ast.GtE):
                    t = at_least(k)
                elif isinstance(op, ast.Lt):
                    t = at_most(k - 1) if k >= 1 else EMPTY
                elif isinstance(op, ast.LtE):
                    t = at_most(k)
                elif isinstance(op, ast.Eq):
                    t = exactly(k)
                elif isinstance(op, ast.NotEq):
                    t = comp(exactly(k))
                else:
                    raise Untranslatable('len comparison')
                return Cond(t, comp(t))
            # n[k] == lit / != lit
            if isinstance(left, ast.Subscript) and self._is_var(left.value) \
                    and isinstance(op, (ast.Eq, ast.NotEq)):
                self.constructs.add('index-compare')
                s = self._const_str(right)
                pre, suf, err = self._index_lang(left.slice)
                if len(s) != 1:
                    t = EMPTY
                else:
                    t = cat(pre, lit(s), suf)
                ok = comp(err)
                if isinstance(op, ast.Eq):
                    return Cond(t, inter(ok, comp(t)), err)
                return Cond(inter(ok, comp(t)), t, err)
            raise Untranslatable('comparison %s' % ast.dump(node)[:80])
        if isinstance(node, ast.Call) and isinstance(node.func, ast.Attribute):
            f = node.func
            # n.startswith(lit) / n.endswith(lit)
            if self._is_var(f.value) and f.attr in ('startswith', 'endswith') and len(node.args) == 1:
                self.constructs.add(f.attr)
                s = self._const_str(node.args[0])
                t = cat(lit(s), FULL) if f.attr == 'startswith' else cat(FULL, lit(s))
                return Cond(t, comp(t))
            # n[k].isdigit()
            if f.attr == 'isdigit' and isinstance(f.value, ast.Subscript) and self._is_var(f.value.value) \
                    and not node.args:
                self.constructs.add('index-isdigit')
                pre, suf, err = self._index_lang(f.value.slice)
                t = cat(pre, ranges_re(charclass('isdigit')), suf)
                return Cond(t, inter(comp(err), comp(t)), err)
            # RE.search(n)
            if f.attr == 'search' and isinstance(f.value, ast.Name) and len(node.args) == 1 \
                    and self._is_var(node.args[0]):
                self.constructs.add('re.search')
                pat = getattr(self.module, f.value.id, None)
                if not isinstance(pat, re.Pattern):
                    raise Untranslatable('unknown pattern %s' % f.value.id)
                t = cat(FULL, pattern_to_re(pat), FULL)
                return Cond(t, comp(t))
        raise Untranslatable('condition %s' % ast.dump(node)[:80])


# ------------------------------------------------------------------ the DBus grammar (spec)

def _cls(s):
    """character class from a compact description like 'A-Za-z0-9_'"""
    rs = []
    i = 0
    while i < len(s):
        if i + 2 < len(s) and s[i + 1] == '-' :
            rs.append((ord(s[i]), ord(s[i + 2])))
            i += 3
        else:
            rs.append((ord(s[i]), ord(s[i])))
            i += 1
    return ranges_re(sorted(rs))


def spec_languages():
    alpha_ = _cls('A-Za-z_')
    alnum_ = _cls('A-Za-z0-9_')
    alpha_h = union(_cls('A-Za-z_'), lit('-'))
    alnum_h = union(_cls('A-Za-z0-9_'), lit('-'))
    max255 = at_most(255)
    elem = cat(alpha_, z3.Star(alnum_))
    iface = inter(cat(elem, z3.Plus(cat(lit('.'), elem))), max255)
    member = inter(elem, max255)
    welem = cat(alpha_h, z3.Star(alnum_h))
    uelem = z3.Plus(alnum_h)
    bus = inter(union(cat(welem, z3.Plus(cat(lit('.'), welem))),
                      cat(lit(':'), uelem, z3.Plus(cat(lit('.'), uelem)))), max255)
    path = union(lit('/'), z3.Plus(cat(lit('/'), z3.Plus(alnum_))))
    return {'validateObjectPath': path, 'validateInterfaceName': iface, 'validateErrorName': iface,
            'validateBusName': bus, 'validateMemberName': member}


def spec_predicates():
    """The same grammar as plain Python predicates (for translator validation)."""
    import string
    A = set(string.ascii_letters + '_')
    AN = A | set(string.digits)

    def elem(e, first=A, rest=AN):
        return len(e) >= 1 and e[0] in first and all(c in rest for c in e)

    def iface(n):
        p = n.split('.')
        return len(n) <= 255 and len(p) >= 2 and all(elem(e) for e in p)

    def member(n):
        return len(n) <= 255 and elem(n)

    def bus(n):
        if len(n) > 255:
            return False
        if n.startswith(':'):
            p = n[1:].split('.')
            return len(p) >= 2 and all(len(e) >= 1 and all(c in AN | {'-'} for c in e) for e in p)
        p = n.split('.')
        return len(p) >= 2 and all(elem(e, A | {'-'}, AN | {'-'}) for e in p)

    def path(n):
        if n == '/':
            return True
        if not n.startswith('/'):
            return False
        return all(len(e) >= 1 and all(c in AN for c in e) for e in n[1:].split('/'))
    return {'validateObjectPath': path, 'validateInterfaceName': iface, 'validateErrorName': iface,
            'validateBusName': bus, 'validateMemberName': member}


def nonempty(r, maxlen=300, timeout_ms=60000):
    """Returns ('sat', witness) / ('unsat', None) / ('unknown', reason); prefers short witnesses."""
    st, w = _nonempty(r, maxlen, timeout_ms)
    if st != 'sat':
        return st, w
    for m in (3, 6, 12):
        if m < maxlen:
            st2, w2 = _nonempty(r, m, 10000)
            if st2 == 'sat':
                return st2, w2
    return st, w


def _nonempty(r, maxlen, timeout_ms):
    s = z3.String('s')
    sol = z3.Solver()
    sol.set('timeout', timeout_ms)
    sol.add(z3.InRe(s, inter(r, at_most(maxlen))))
    res = sol.check()
    if res == z3.sat:
        v = sol.model().eval(s, model_completion=True)
        return 'sat', v.as_string() if hasattr(v, 'as_string') else str(v)
    if res == z3.unsat:
        return 'unsat', None
    return 'unknown', sol.reason_unknown()


def z3_unescape(s):
    """z3 prints non-printable characters as \\u{XXXX}."""
    def rep(m):
        return chr(int(m.group(1), 16))
    return re.sub(r'\\u\{([0-9a-fA-F]+)\}', rep, s)
