"""
Thin driver around CrossHair's path explorer.

A *harness* is a plain Python function over symbolic parameters.  Inside it:
  assume(c)   - path is outside the claim when c is false
  check(c, m) - the property; raises Violation
Any other exception leaving the harness is reported too.

analyze(spec) explores the harness symbolically and returns a Result whose status is
  CONFIRMED  every path explored, no failure
  REFUTED    a failing path; .cex holds realised concrete arguments
  UNKNOWN    budget hit / solver unknown / unsupported
  PRE_UNSAT  no path got past the assumptions
"""
import inspect
import time
import os
import traceback
from collections import Counter
from dataclasses import dataclass, field
from typing import Any, Callable, List, Optional, Sequence, Tuple

import z3


class Violation(Exception):
    """The property under check does not hold on this path."""


class AssumptionFailed(Exception):
    """Raised by assume() in a concrete run: the input is outside the claim."""


class HarnessError(Exception):
    """The harness/model itself is wrong (never a verdict about txdbus)."""


def _tracing():
    try:
        from crosshair.tracers import is_tracing
        return is_tracing()
    except Exception:
        return False


def assume(cond):
    if not cond:
        if _tracing():
            from crosshair.util import IgnoreAttempt
            raise IgnoreAttempt('assumption')
        raise AssumptionFailed()


def check(cond, msg='property'):
    if not cond:
        raise Violation(msg)


TWIN = False


def reached():
    """Marks the end of a harness's successful path; the reachability twin fails here."""
    if TWIN:
        raise Violation('reached')


def concrete(x):
    """Realise a symbolic value (forks the path per value); identity outside CrossHair."""
    if _tracing():
        from crosshair.core import deep_realize
        return deep_realize(x)
    return x


def decode_choice(code, sizes):
    """One symbolic integer encodes a tuple of finite selectors (mixed radix): realising a
    single variable costs ~1-2 paths per value, several variables multiply the overhead."""
    total = 1
    for n in sizes:
        total *= n
    assume(0 <= code < total)
    # binary search on the symbolic value: exactly one path per value, log2(total) cheap branches each
    lo, hi = 0, total - 1
    while lo < hi:
        mid = (lo + hi) // 2
        if code <= mid:
            hi = mid
        else:
            lo = mid + 1
    c = lo
    out = []
    for n in reversed(sizes):
        out.append(c % n)
        c //= n
    return list(reversed(out))


def encode_choice(values, sizes):
    c = 0
    for v, n in zip(values, sizes):
        c = c * n + v
    return c


def mkbytes(ints):
    """bytes from a sequence of (possibly symbolic) ints without realising them."""
    if _tracing():
        from crosshair.tracers import NoTracing
        from crosshair.libimpl.builtinslib import SymbolicBytes
        with NoTracing():
            return SymbolicBytes(list(ints))
    return bytes(ints)


class notrace:
    """`with notrace():` runs set-up code concretely (no-op outside CrossHair)."""

    def __enter__(self):
        self._cm = None
        if _tracing():
            from crosshair.tracers import NoTracing
            self._cm = NoTracing()
            self._cm.__enter__()
        return self

    def __exit__(self, *a):
        if self._cm is not None:
            return self._cm.__exit__(*a)
        return False


@dataclass
class Spec:
    fn: Callable
    params: Sequence[Tuple[str, Any]]          # (name, type annotation)
    witnesses: Sequence[tuple] = ()            # concrete inputs that satisfy the assumptions
    per_condition_timeout: float = 60.0
    per_path_timeout: float = 20.0
    max_uninteresting_iterations: int = 10 ** 9


@dataclass
class Result:
    status: str
    paths: int = 0
    queries: int = 0
    solver_s: float = 0.0
    cpu_s: float = 0.0
    cex: Optional[tuple] = None
    message: str = ''
    detail: str = ''


_solver_stats = {'n': 0, 't': 0.0}
_wrapped = False


def _wrap_solver():
    global _wrapped
    if _wrapped:
        return
    _wrapped = True
    orig = z3.Solver.check

    def check_(self, *a, **kw):
        t = time.perf_counter()
        try:
            return orig(self, *a, **kw)
        finally:
            _solver_stats['n'] += 1
            _solver_stats['t'] += time.perf_counter() - t
    z3.Solver.check = check_


def analyze(spec: Spec) -> Result:
    from . import plugin
    plugin.install()
    _wrap_solver()
    from crosshair.condition_parser import (ConditionExpr, Conditions, POSTCONDITION)
    from crosshair.core import (AnalysisOptionSet, DEFAULT_OPTIONS, analyze_calltree,
                                deep_realize, MessageType)
    from crosshair.options import AnalysisKind
    from crosshair.statespace import VerificationStatus
    from crosshair.condition_parser import condition_parser

    fn = spec.fn
    names = [n for n, _ in spec.params]
    sig = inspect.Signature([
        inspect.Parameter(n, inspect.Parameter.POSITIONAL_OR_KEYWORD, annotation=t)
        for n, t in spec.params])
    recorded: List[Tuple[tuple, str]] = []

    def body(*args):
        try:
            return fn(*args)
        except Exception as e:  # CrossHair's steering exceptions are BaseException
            from crosshair.tracers import NoTracing
            try:
                real = deep_realize(args)
            except Exception:
                raise e
            with NoTracing():
                recorded.append((tuple(real), '%s: %s' % (type(e).__name__, e)))
            raise

    body.__name__ = getattr(fn, '__name__', 'harness')
    body.__qualname__ = body.__name__
    body.__module__ = getattr(fn, '__module__', __name__)
    try:
        filename = inspect.getsourcefile(fn) or '<harness>'
        line = fn.__code__.co_firstlineno
    except Exception:
        filename, line = '<harness>', 0
    post = [ConditionExpr(POSTCONDITION, lambda _: True, filename, line, '')]
    conditions = Conditions(body, fn, [], post, raises=frozenset(), sig=sig,
                            mutable_args=None, fn_syntax_messages=[])
    stats: Counter = Counter()
    optset = AnalysisOptionSet(
        analysis_kind=(AnalysisKind.asserts,),
        per_condition_timeout=spec.per_condition_timeout,
        per_path_timeout=spec.per_path_timeout,
        max_uninteresting_iterations=spec.max_uninteresting_iterations,
        stats=stats)
    options = DEFAULT_OPTIONS.overlay(optset)
    q0, t0 = _solver_stats['n'], _solver_stats['t']
    c0 = time.process_time()
    options.deadline = c0 + options.per_condition_timeout
    try:
        with condition_parser(options.analysis_kind):
            analysis = analyze_calltree(options, conditions)
    except Exception as e:
        return Result('UNKNOWN', paths=stats.get('num_paths', 0),
                      message='engine error: %r' % (e,), detail=traceback.format_exc(),
                      cpu_s=time.process_time() - c0)
    res = Result('UNKNOWN', paths=stats.get('num_paths', 0),
                 queries=_solver_stats['n'] - q0, solver_s=_solver_stats['t'] - t0,
                 cpu_s=time.process_time() - c0)
    vs = analysis.verification_status
    msgs = list(analysis.messages or [])
    if vs is VerificationStatus.CONFIRMED:
        res.status = 'CONFIRMED'
    elif vs is VerificationStatus.REFUTED:
        res.status = 'REFUTED'
        res.message = '; '.join(m.message for m in msgs)
        res.detail = '\n'.join((m.traceback or '') for m in msgs)
        if any(m.state == MessageType.PRE_UNSAT for m in msgs):
            res.status = 'PRE_UNSAT'
        elif recorded:
            res.cex = recorded[-1][0]
        if 'NotDeterministic' in res.message:
            res.status = 'UNKNOWN'
    else:
        res.status = 'UNKNOWN'
        res.message = '; '.join(m.message for m in msgs)
        if any(m.state == MessageType.PRE_UNSAT for m in msgs):
            res.status = 'PRE_UNSAT'
    return res


def run_concrete(fn, args, timeout_s=None):
    """Plain execution of a harness; returns (outcome, text).
    outcome in {'ok', 'violation', 'error', 'outside'}"""
    try:
        fn(*args)
        return 'ok', ''
    except AssumptionFailed:
        return 'outside', ''
    except Violation as e:
        return 'violation', 'Violation: %s' % (e,)
    except HarnessError as e:
        return 'harness', 'HarnessError: %s' % (e,)
    except Exception as e:
        # an exception that was raised by the harness's own code (innermost frame under /verif, e.g. a NameError in a
        # check) says nothing about the code under test: harness error, not a finding
        tb = traceback.extract_tb(e.__traceback__)
        here = os.path.dirname(os.path.dirname(os.path.abspath(__file__)))
        if tb and os.path.abspath(tb[-1].filename).startswith(here + os.sep) and isinstance(e, (NameError, UnboundLocalError, ImportError)):
            return 'harness', 'HarnessError: %s in the harness itself: %s\n%s' % (type(e).__name__, e, traceback.format_exc())
        return 'error', '%s: %s\n%s' % (type(e).__name__, e, traceback.format_exc())
