"""
Reference DBus message layout, from the specification ("Message Format"), on top of ref_codec.

  byte  endianness 'l' / 'B'
  byte  type 1..4
  byte  flags   0x1 NO_REPLY_EXPECTED, 0x2 NO_AUTO_START
  byte  protocol version (1)
  u32   body length
  u32   serial (non-zero)
  a(yv) header fields
  pad to 8
  body
"""
from . import ref_codec

FIELD_SIG = {1: 'o', 2: 's', 3: 's', 4: 's', 5: 'u', 6: 's', 7: 's', 8: 'g', 9: 'u'}
FIELD_NAME = {1: 'path', 2: 'interface', 3: 'member', 4: 'error_name', 5: 'reply_serial',
              6: 'destination', 7: 'sender', 8: 'signature', 9: 'unix_fds'}
REQUIRED = {1: (1, 3), 2: (5,), 3: (4, 5), 4: (1, 2, 3)}


def encode(mtype, flags, serial, fields, body_sig='', body=(), little=True, version=1):
    """fields: list of (code, variant_sig, value) in wire order."""
    bbytes = ref_codec.encode(body_sig, body, 0, little) if body_sig else b''
    hdr = ref_codec.encode(
        'yyyyuua(yv)',
        [ord('l') if little else ord('B'), mtype, flags, version, len(bbytes), serial,
         [[code, [vsig, val]] for code, vsig, val in fields]],
        0, little)
    pad = b'\0' * ((-len(hdr)) % 8)
    return hdr + pad + bbytes


class Decoded:
    pass


def decode(raw):
    """Strict structural decode of message bytes; raises ref_codec.RefError if malformed."""
    d = Decoded()
    if len(raw) < 16:
        raise ref_codec.RefError('short')
    e = raw[0]
    if e == ord('l'):
        little = True
    elif e == ord('B'):
        little = False
    else:
        raise ref_codec.RefError('bad endianness byte')
    d.little = little
    vals, n = ref_codec.decode('yyyyuu', raw, 0, little)
    _, d.type, d.flags, d.version, d.body_len, d.serial = vals
    # header field array, decoded field by field so the variant signatures are kept
    alen = ref_codec._uint(raw, 12, 4, little)
    off = 16
    end = off + alen
    d.fields = []
    while off < end:
        off += ref_codec.padlen(off, 8)
        code = raw[off]
        off += 1
        vsig, off2 = ref_codec._dec('g', raw, off, little, None)
        val, off3 = ref_codec._dec(vsig, raw, off2, little, None)
        if off3 <= off:
            raise ref_codec.RefError('no progress')
        off = off3
        d.fields.append((code, vsig, val))
    if off != end:
        raise ref_codec.RefError('header array length mismatch')
    d.header_len = end
    padn = (-end) % 8
    d.padding = raw[end:end + padn]
    if len(d.padding) != padn:
        raise ref_codec.RefError('truncated padding')
    d.body = raw[end + padn:]
    return d
