"""
Reference DBus wire codec written from the specification (D-Bus Specification 0.4x,
"Marshaling (Wire Format)").  Independent of txdbus.marshal: different structure
(offset-tracking recursive encoder over a parsed signature), own alignment table
(ref_sig.ALIGN), own length/terminator rules.

Values use the normal form txdbus decodes to: ints, bools, floats, str; arrays as lists,
structs as lists, dicts as Python dicts (or lists of [key, value] pairs for the encoder, so
that symbolic keys need not be hashed); variants as (signature, value) pairs for the
encoder and as plain values for the decoder.  UNIX_FD values: the integer *index* is on the
wire; encode takes the fd list position explicitly.
"""
import struct

from .ref_sig import ALIGN, INT_SIZE, split, fields


class RefError(ValueError):
    pass


def padlen(offset, align):
    return (-offset) % align


def _int_bytes(v, size, signed, little):
    return v.to_bytes(size, 'little' if little else 'big', signed=signed)


def _enc(ct, v, off, little, fdctr):
    """Encodes one complete type whose first byte would be written at absolute offset
    `off` (padding is added here). Returns bytes."""
    c = ct[0]
    out = b'\0' * padlen(off, ALIGN[c])
    off += len(out)
    if c in INT_SIZE:
        return out + _int_bytes(v, INT_SIZE[c], c in 'nix', little)
    if c == 'b':
        return out + _int_bytes(1 if v else 0, 4, False, little)
    if c == 'h':
        idx = fdctr[0]
        fdctr[0] += 1
        return out + _int_bytes(idx, 4, False, little)
    if c == 'd':
        return out + struct.pack('<d' if little else '>d', v)
    if c in 'so':
        raw = v.encode('utf-8')
        return out + _int_bytes(len(raw), 4, False, little) + raw + b'\0'
    if c == 'g':
        raw = v.encode('ascii')
        return out + _int_bytes(len(raw), 1, False, little) + raw + b'\0'
    if c == 'a':
        et = ct[1:]
        items = list(v.items()) if isinstance(v, dict) else list(v)
        body_start = off + 4
        first_pad = padlen(body_start, ALIGN[et[0]])
        body_start += first_pad
        body = b''
        for it in items:
            body += _enc(et, it, body_start + len(body), little, fdctr)
        return out + _int_bytes(len(body), 4, False, little) + b'\0' * first_pad + body
    if c in '({':
        body = b''
        for ft, fv in zip(fields(ct), v):
            body += _enc(ft, fv, off + len(body), little, fdctr)
        return out + body
    if c == 'v':
        vsig, inner = v
        if len(split(vsig)) != 1:
            raise RefError('variant must hold one complete type')
        raw = vsig.encode('ascii')
        head = bytes([len(raw)]) + raw + b'\0'
        return out + head + _enc(vsig, inner, off + len(head), little, fdctr)
    raise RefError('bad type %r' % ct)


def encode(sig, values, offset=0, little=True):
    """Bytes for `values` under `sig` when the first byte lands at absolute `offset`."""
    out = b''
    fdctr = [0]
    for ct, v in zip(split(sig), values):
        out += _enc(ct, v, offset + len(out), little, fdctr)
    return out


def _need(data, off, n):
    if off < 0 or off + n > len(data):
        raise RefError('truncated')


def _uint(data, off, size, little, signed=False):
    _need(data, off, size)
    return int.from_bytes(data[off:off + size], 'little' if little else 'big', signed=signed)


def _dec(ct, data, off, little, fds):
    """Returns (value, new_offset)."""
    c = ct[0]
    off += padlen(off, ALIGN[c])
    if c in INT_SIZE:
        n = INT_SIZE[c]
        return _uint(data, off, n, little, c in 'nix'), off + n
    if c == 'b':
        return _uint(data, off, 4, little) != 0, off + 4
    if c == 'h':
        idx = _uint(data, off, 4, little)
        return (fds[idx] if fds is not None and idx < len(fds) else None), off + 4
    if c == 'd':
        _need(data, off, 8)
        return struct.unpack('<d' if little else '>d', bytes(data[off:off + 8]))[0], off + 8
    if c in 'so':
        n = _uint(data, off, 4, little)
        _need(data, off + 4, n + 1)
        return data[off + 4:off + 4 + n].decode('utf-8'), off + 4 + n + 1
    if c == 'g':
        n = _uint(data, off, 1, little)
        _need(data, off + 1, n + 1)
        return data[off + 1:off + 1 + n].decode('ascii'), off + 1 + n + 1
    if c == 'a':
        et = ct[1:]
        n = _uint(data, off, 4, little)
        off += 4
        off += padlen(off, ALIGN[et[0]])
        end = off + n
        items = []
        while off < end:
            v, noff = _dec(et, data, off, little, fds)
            if noff <= off:
                raise RefError('no progress')
            off = noff
            items.append(v)
        if off != end:
            raise RefError('array length mismatch')
        if et[0] == '{':
            return {k: v for k, v in items}, off
        return items, off
    if c in '({':
        vals = []
        for ft in fields(ct):
            v, off = _dec(ft, data, off, little, fds)
            vals.append(v)
        return vals, off
    if c == 'v':
        vsig, off = _dec('g', data, off, little, fds)
        if len(split(vsig)) != 1:
            raise RefError('variant must hold one complete type')
        if _KEEP_VSIG[0]:
            inner, off = _dec(vsig, data, off, little, fds)
            return [vsig, inner], off
        return _dec(vsig, data, off, little, fds)
    raise RefError('bad type %r' % ct)


_KEEP_VSIG = [False]


def decode(sig, data, offset=0, little=True, fds=None, keep_vsig=False):
    """Returns (values, bytes_consumed).  keep_vsig: variants come back as [signature, value]."""
    off = offset
    vals = []
    saved = _KEEP_VSIG[0]
    _KEEP_VSIG[0] = keep_vsig
    try:
        for ct in split(sig):
            v, off = _dec(ct, data, off, little, fds)
            vals.append(v)
    finally:
        _KEEP_VSIG[0] = saved
    return vals, off - offset
