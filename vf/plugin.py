"""
Corrections to CrossHair 0.0.110's models, loaded in every worker before analysis.
(DESIGN.md section 1.2).  Nothing here touches /repo.

1. struct.unpack_from: concrete buffer -> real C function; symbolic -> exact slice.
2. int.to_bytes on a symbolic int: fresh digit variables (linear) instead of div/mod.
3. txdbus.marshal wrapper classes (Byte .. UInt64) called with a symbolic int keep
   the payload symbolic.
4. x & m for constant m and x >= 0 stays symbolic.
"""
import operator as ops
import struct

import z3

_installed = False


def install():
    global _installed
    if _installed:
        return
    _installed = True

    import crosshair.core_and_libs  # noqa: F401  (registers the standard models)
    from crosshair import core
    from crosshair.core import realize, deep_realize
    from crosshair.libimpl import builtinslib as bl
    from crosshair.libimpl import structlib as sl
    from crosshair.statespace import context_statespace
    from crosshair.tracers import NoTracing, ResumedTracing, is_tracing

    SymbolicInt = bl.SymbolicInt
    SymbolicBytes = bl.SymbolicBytes

    # ---------------------------------------------------------------- 1
    def _unpack_from(fmt, /, buffer, offset=0):
        sl._check_format_arg(fmt)
        fmt_arg = realize(fmt)
        with NoTracing():
            size = struct.calcsize(fmt_arg)
            symbuf = sl._is_symbolic_buffer(buffer)
            symoff = isinstance(offset, SymbolicInt)
        sl._check_readable_buffer_arg(buffer)
        if not symbuf and not symoff:
            with NoTracing():
                return struct.unpack_from(fmt_arg, buffer, offset)
        if not symoff:
            offset = ops.index(offset)
        n = len(buffer)
        if offset < 0:
            offset = offset + n
            if offset < 0:
                raise struct.error('offset out of range')
        if n - offset < size:
            raise struct.error(
                'unpack_from requires a buffer of at least %d bytes' % size)
        return sl._unpack(fmt_arg, buffer[offset:offset + size])

    core._PATCH_REGISTRATIONS[struct.unpack_from] = _unpack_from

    # ---------------------------------------------------------------- 2
    _orig_to_bytes = SymbolicInt.to_bytes

    def to_bytes(self, length=1, byteorder='big', *, signed=False):
        if not isinstance(length, int) or not isinstance(byteorder, str) \
                or not isinstance(signed, bool):
            raise TypeError
        length = realize(length)
        byteorder = realize(byteorder)
        if byteorder not in ('big', 'little'):
            raise ValueError
        if signed:
            half = (256 ** length) >> 1
            if self < -half or self >= half:
                raise OverflowError
        else:
            if self < 0 or self >= 256 ** length:
                raise OverflowError
        with NoTracing():
            space = context_statespace()
            var = self.var if isinstance(self, SymbolicInt) else z3.IntVal(int(self))
            if signed:
                # two's complement without forking the path on the sign
                var = z3.If(var < 0, var + 256 ** length, var)
            digits = []
            total = None
            for i in range(length):
                d = z3.Int('dg%d_%s' % (i, space.uniq()))
                space.add(z3.And(d >= 0, d < 256))
                digits.append(SymbolicInt(d))
                term = d * (256 ** i)
                total = term if total is None else total + term
            if total is not None:
                space.add(var == total)
            if byteorder == 'big':
                digits.reverse()
            return SymbolicBytes(digits)

    SymbolicInt.to_bytes = to_bytes

    # struct.pack('<i', <symbolic bool>) is legal Python (bool is an int)
    def _bool_to_bytes(self, length=1, byteorder='big', *, signed=False):
        with NoTracing():
            as_int = SymbolicInt(z3.If(self.var, z3.IntVal(1), z3.IntVal(0)))
        return to_bytes(as_int, length, byteorder, signed=signed)

    bl.SymbolicBool.to_bytes = _bool_to_bytes

    # ---------------------------------------------------------------- 9
    # dict.pop(key[, default]) on a concrete dict with a symbolic key: compare with the keys
    # (CrossHair models get / [] / in this way, but pop hashes the key: one path per value).
    _MISSING = object()

    def _dict_pop(self, key, default=_MISSING):
        with NoTracing():
            plain = isinstance(key, (int, float, str)) or not isinstance(self, dict)
        if plain:
            if default is _MISSING:
                return dict.pop(self, key)
            return dict.pop(self, key, default)
        for k in list(dict.keys(self)):
            if k == key:
                return dict.pop(self, k)
        if default is _MISSING:
            raise KeyError(key)
        return default

    core._PATCH_REGISTRATIONS[dict.pop] = _dict_pop

    # ---------------------------------------------------------------- 8
    # Fast paths: fully concrete arguments go to the real C functions (CrossHair's
    # Python-level codec / struct models cost ~20 us per character even for concrete data).
    import codecs as _codecs
    _ch_encode = core._PATCH_REGISTRATIONS[_codecs.encode]
    _ch_decode = core._PATCH_REGISTRATIONS[_codecs.decode]
    _ch_pack = core._PATCH_REGISTRATIONS[struct.pack]

    def _fast_encode(obj, encoding='utf-8', errors='strict'):
        with NoTracing():
            plain = type(obj) is str and type(encoding) is str and type(errors) is str
            if plain:
                return _codecs.encode(obj, encoding, errors)
        return _ch_encode(obj, encoding, errors)

    def _fast_decode(obj, encoding='utf-8', errors='strict'):
        with NoTracing():
            plain = type(obj) in (bytes, bytearray) and type(encoding) is str and type(errors) is str
            if plain:
                return _codecs.decode(obj, encoding, errors)
        return _ch_decode(obj, encoding, errors)

    def _fast_pack(fmt, *args):
        with NoTracing():
            plain = type(fmt) in (str, bytes) and all(type(a) in (int, float, bool, bytes) for a in args)
            if plain:
                return struct.pack(fmt, *args)
        return _ch_pack(fmt, *args)

    core._PATCH_REGISTRATIONS[_codecs.encode] = _fast_encode
    core._PATCH_REGISTRATIONS[_codecs.decode] = _fast_decode
    core._PATCH_REGISTRATIONS[struct.pack] = _fast_pack

    # ---------------------------------------------------------------- 7
    # Slicing a symbolic byte string (concrete length) with a symbolic bound: CrossHair
    # realises the bound value by value (2^32 paths for a lying length field). Clamp it
    # to 0..len first: at most len+2 paths per bound.
    _orig_getitem = SymbolicBytes.__getitem__

    def _clamp(v, n):
        with NoTracing():
            sym = isinstance(v, SymbolicInt)
        if not sym:
            return v
        if v < 0:
            v = v + n
            if v < 0:
                return 0
        if v >= n:
            return n
        return ops.index(v)     # 0 <= v < n here: realisation forks over at most n values

    def _getitem(self, i):
        if isinstance(i, slice) and i.step is None:
            with NoTracing():
                inner = self.inner
                plain = isinstance(inner, list) and (
                    isinstance(i.start, SymbolicInt) or isinstance(i.stop, SymbolicInt))
            if plain:
                n = len(inner)
                i = slice(_clamp(i.start, n), _clamp(i.stop, n))
        return _orig_getitem(self, i)

    SymbolicBytes.__getitem__ = _getitem

    # ---------------------------------------------------------------- 6
    # bytes.split(sep) on a symbolic byte string with a concrete separator: CrossHair
    # realises the whole string; this keeps the content symbolic (forks per candidate match).
    def _sym_split(self, sep=None, maxsplit=-1):
        with NoTracing():
            plain = (sep is None or maxsplit != -1 or not isinstance(sep, (bytes, bytearray))
                     or len(sep) == 0)
        if plain:
            return realize(self).split(realize(sep), realize(maxsplit))
        n = realize(len(self))
        m = len(sep)
        out = []
        start = 0
        i = 0
        while i + m <= n:
            hit = True
            for j in range(m):
                if self[i + j] != sep[j]:
                    hit = False
                    break
            if hit:
                out.append(self[start:i])
                i += m
                start = i
            else:
                i += 1
        out.append(self[start:])
        return out

    SymbolicBytes.split = _sym_split

    # ---------------------------------------------------------------- 2b
    _orig_from_bytes = core._PATCH_REGISTRATIONS.get(int.from_bytes)

    def _from_bytes(b, byteorder='big', *, signed=False):
        if not isinstance(byteorder, str):
            raise TypeError
        byteorder = realize(byteorder)
        if byteorder not in ('big', 'little'):
            raise ValueError
        with NoTracing():
            sym = isinstance(b, (SymbolicBytes, bl.SymbolicByteArray))
        if not sym:
            with NoTracing():
                return int.from_bytes(b, byteorder, signed=signed)
        n = realize(len(b))
        items = [b[i] for i in range(n)]
        with NoTracing():
            if byteorder == 'big':
                items.reverse()
            total = z3.IntVal(0)
            anysym = False
            for i, it in enumerate(items):
                if isinstance(it, SymbolicInt):
                    anysym = True
                    total = total + it.var * (256 ** i)
                else:
                    total = total + int(it) * (256 ** i)
            if not anysym:
                return int.from_bytes(bytes(int(i) for i in items), 'little', signed=signed)
            if signed and n:
                total = z3.If(total >= (256 ** n) // 2, total - 256 ** n, total)
            return SymbolicInt(z3.simplify(total))

    core._PATCH_REGISTRATIONS[int.from_bytes] = _from_bytes

    # ---------------------------------------------------------------- 5
    # UTF-8 model with linear arithmetic: CrossHair's uses >> and & on symbolic code
    # points / bytes (div/mod terms: one character's round trip did not finish in 60 s).
    from crosshair.libimpl.encodings import utf_8 as u8
    from crosshair.libimpl.encodings._encutil import MidChunkError, UnexpectedEndError

    def _digits64(cp, n):
        """cp == sum d_i * 64^i, fresh d_i; returns [d_{n-1} .. d_0] (top digit unbounded above)"""
        with NoTracing():
            if not isinstance(cp, SymbolicInt):
                c = int(cp)
                return [(c >> (6 * i)) & (63 if i < n - 1 else 0xFFFFFF) for i in reversed(range(n))]
            space = context_statespace()
            ds, total = [], None
            for i in range(n):
                d = z3.Int('u8d%d_%s' % (i, space.uniq()))
                space.add(d >= 0)
                if i < n - 1:
                    space.add(d < 64)
                ds.append(d)
                t = d * (64 ** i)
                total = t if total is None else total + t
            space.add(cp.var == total)
            return [SymbolicInt(d) for d in reversed(ds)]

    def _encode_codepoint(codepoint):
        if codepoint <= 0x7F:
            return (codepoint,)
        elif codepoint <= 0x7FF:
            a, b = _digits64(codepoint, 2)
            return (0xC0 + a, 0x80 + b)
        elif codepoint <= 0xFFFF:
            a, b, c = _digits64(codepoint, 3)
            return (0xE0 + a, 0x80 + b, 0x80 + c)
        else:
            a, b, c, d = _digits64(codepoint, 4)
            return (0xF0 + a, 0x80 + b, 0x80 + c, 0x80 + d)

    u8._encode_codepoint = _encode_codepoint

    def _decode_chunk(cls, byts, start):
        num_bytes = len(byts)
        byt = byts[start]
        end = start + 1
        if byt >= 0xC0:
            end += 1
            if byt >= 0xE0:
                end += 1
                if byt >= 0xF0:
                    if byt > 0xF7:
                        return ("", start, MidChunkError("can't decode byte"))
                    end += 1
                    cp = byt - 0xF0
                    mincp, maxcp = 0x10000, 0x10FFFF
                else:
                    cp = byt - 0xE0
                    mincp, maxcp = 0x0800, 0xFFFF
            else:
                cp = byt - 0xC0
                mincp, maxcp = 0x0080, 0x07FF
        elif byt >= 0x80:
            return ("", start, MidChunkError("invalid start byte"))
        else:
            cp = byt
            mincp, maxcp = 0, 0x007F
        if end > num_bytes:
            return ("", start, UnexpectedEndError())
        for idx in range(start + 1, end):
            b2 = byts[idx]
            if 0x80 <= b2 <= 0xBF:
                cp = (cp * 64) + (b2 - 0x80)
            else:
                return ("", start, MidChunkError("can't decode byte"))
        if mincp <= cp <= maxcp and not (0xD800 <= cp <= 0xDFFF):
            return (chr(cp), end, None)
        else:
            return ("", start, MidChunkError("invalid start byte"))

    u8.Utf8StemEncoder._decode_chunk = classmethod(_decode_chunk)

    # ---------------------------------------------------------------- 4
    def _and_const(op, a, b):
        # a: SymbolicInt, b: concrete int mask (or the other way round)
        with NoTracing():
            if isinstance(a, SymbolicInt) and type(b) is int:
                x, m = a, b
            elif isinstance(b, SymbolicInt) and type(a) is int:
                x, m = b, a
            else:
                x = None
        if x is None or m < 0:
            return _prev_and(op, a, b)
        if m == 0:
            return 0
        if x < 0:
            return _prev_and(op, a, b)
        with NoTracing():
            total = None
            k = 0
            mm = m
            while mm:
                if mm & 1:
                    t = ((x.var / (2 ** k)) % 2) * (2 ** k)
                    total = t if total is None else total + t
                mm >>= 1
                k += 1
            return SymbolicInt(total)

    # find the function currently registered for (and_, SymbolicInt, int)
    _prev = {}
    for (op, ta, tb, fn) in reversed(bl._BIN_OPS_SEARCH_ORDER):
        if op is ops.and_ and issubclass(SymbolicInt, ta) and issubclass(int, tb):
            _prev['fn'] = fn
            break

    def _prev_and(op, a, b):
        return _prev['fn'](op, a, b)

    if 'fn' in _prev:
        bl._BIN_OPS_SEARCH_ORDER.append((ops.and_, SymbolicInt, int, _and_const))
        bl._BIN_OPS_SEARCH_ORDER.append((ops.and_, int, SymbolicInt, _and_const))
        for k in [k for k in bl._BIN_OPS if k[0] is ops.and_]:
            del bl._BIN_OPS[k]


def install_wrappers():
    """Model 3: needs txdbus.marshal imported (from the tree under test)."""
    from crosshair import core
    from crosshair.libimpl import builtinslib as bl
    from crosshair.tracers import NoTracing
    from txdbus import marshal

    SymbolicInt = bl.SymbolicInt
    for cls in (marshal.Byte, marshal.Boolean, marshal.Int16, marshal.UInt16,
                marshal.Int32, marshal.UInt32, marshal.Int64, marshal.UInt64):
        if cls in core._PATCH_REGISTRATIONS:
            continue
        sig = cls.__dict__.get('dbusSignature')
        def _mk_ns(cls):
            def __ch_pytype__(self):
                return cls

            def __ch_realize__(self):
                return cls(SymbolicInt.__ch_realize__(self))
            return {'dbusSignature': sig, '__ch_pytype__': __ch_pytype__,
                    '__ch_realize__': __ch_realize__}
        symcls = type('Sym' + cls.__name__, (SymbolicInt,), _mk_ns(cls))

        def make(cls=cls, symcls=symcls):
            def ctor(*a, **kw):
                if len(a) == 1 and not kw:
                    with NoTracing():
                        is_sym = isinstance(a[0], SymbolicInt)
                        if is_sym:
                            return symcls(a[0].var)
                        return cls(a[0])
                with NoTracing():
                    return cls(*a, **kw)
            return ctor
        core._PATCH_REGISTRATIONS[cls] = make()
