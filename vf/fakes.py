"""Environment stubs installed from the harness side (DESIGN.md 1.3)."""


class FakeTransport:
    """Records what a protocol writes; no I/O."""
    disconnecting = False

    def __init__(self):
        self.written = []        # list of bytes-like chunks, in order
        self.fds = []            # descriptors passed to sendFileDescriptor, in order
        self.events = []         # ('fd', n) / ('write', chunk)
        self.lost = 0

    def write(self, data):
        self.written.append(data)
        self.events.append(('write', data))

    def writeSequence(self, seq):
        for s in seq:
            self.write(s)

    def sendFileDescriptor(self, fd):
        self.fds.append(fd)
        self.events.append(('fd', fd))

    def loseConnection(self):
        self.lost += 1
        self.disconnecting = True

    def getPeer(self):
        return None

    def getHost(self):
        return None

    def value(self):
        return b''.join(bytes(w) for w in self.written)

    def clear(self):
        self.written = []
        self.events = []
