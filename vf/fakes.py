"""Environment stubs installed from the harness side (DESIGN.md 1.3)."""


class FakeTransport:
    """Records what a protocol writes; no I/O."""
    disconnecting = False

    def __init__(self):
        self.written = []        # list of bytes-like chunks, in order
        self.fds = []            # descriptors passed to sendFileDescriptor, in order
        self.events = []         # ('fd', n) / ('write', chunk)
        self.lost = 0

    def write(self, data):
        self.written.append(data)
        self.events.append(('write', data))

    def writeSequence(self, seq):
        for s in seq:
            self.write(s)

    def sendFileDescriptor(self, fd):
        self.fds.append(fd)
        self.events.append(('fd', fd))

    def loseConnection(self):
        self.lost += 1
        self.disconnecting = True

    def getPeer(self):
        return None

    def getHost(self):
        return None

    def value(self):
        return b''.join(bytes(w) for w in self.written)

    def clear(self):
        self.written = []
        self.events = []


_clock = None


def install_clock_reactor():
    """A twisted task.Clock stands in for the global reactor (must run before
    txdbus.client is imported: that module does `from twisted.internet import reactor`)."""
    global _clock
    import sys
    from twisted.internet import task
    if _clock is None:
        if 'twisted.internet.reactor' in sys.modules:
            r = sys.modules['twisted.internet.reactor']
            if isinstance(r, task.Clock):
                _clock = r
            else:
                raise RuntimeError('a real reactor is already installed')
        else:
            from twisted.internet.main import installReactor
            _clock = task.Clock()
            installReactor(_clock)
    return _clock


def fresh_clock():
    """New virtual clock, also assigned to txdbus.client.reactor."""
    install_clock_reactor()
    from twisted.internet import task
    from txdbus import client
    c = task.Clock()
    client.reactor = c
    return c
