"""C19 - signature splitting; inferred variant types always encode."""
from ..engine import Spec, assume, check, reached, HarnessError
from ..runner import Ob
from .. import shapes, ref_codec
from ..ref_sig import split, SigError, INT_RANGE, is_valid

PROPERTY = 'C19'
FUNCS = ('txdbus.marshal:genCompleteTypes', 'txdbus.marshal:sigFromPy',
         'txdbus.marshal:marshal_variant', 'txdbus.marshal:unmarshal_variant',
         'txdbus.interface:DBusInterface.addMethod', 'txdbus.interface:DBusInterface.addSignal')
EXPLANATION = (
    'split: the real genCompleteTypes is executed on a SYMBOLIC signature string (every string of the '
    'stated length; the assumption keeps those the DBus grammar accepts) and compared with an '
    'independent grammar-based splitter; Method/Signal argument counts are compared too. '
    'infer: sigFromPy on value shapes with symbolic leaves must return the reference inference, a single '
    'complete type, and marshal("v")/unmarshal("v") must return an equal value.')
BOUNDS = {
    'quick': 'split: every valid signature of length 1..5, and those of length 6 whose first two characters are both container codes (symbolic string, '
             'one obligation per length and class of the first 1-2 characters); infer: 60 value shapes, nesting <= 2, symbolic leaves',
    'thorough': 'split: every valid signature of length 1..7; infer: same shapes x 2 byte orders x 4 offsets',
}
ASSUMPTIONS = [
    'signatures longer than 5-6 (quick) / 7 (thorough) characters are outside the claim',
    'plain Python ints are constrained to int32 (the documented generic type is "i")',
    'containers whose elements share a Python class but not a DBus type are outside the claim (statement)',
    'floats are concrete (pool without nan: the statement uses Python equality)',
]
STUBS = []

FIRST = ['a', '(', 'v', None]     # first-character classes used to split the work ('{' can never start)

# ------------------------------------------------------------------ value shapes for (b)
# ['pint'] ['pbool'] ['pfloat',k] ['pstr',n] ['pba',[ints]] ['w',code] ['wsig',k] ['wpath',k]
# ['list',[..]] ['tuple',[..]] ['dict',[[keynode,node],..]]   keynode: ['kstr',s] / ['kw',code,val] / ['kint',val]
FLOATS = [0.0, 1.5, -2.25e10, float('inf')]
VSHAPES = [
    ['pint'], ['pbool'], ['pfloat', 1], ['pfloat', 3], ['pstr', 1], ['pstr', 2], ['pba', [0, 255, 7]], ['pba', []],
    ['w', 'y'], ['w', 'n'], ['w', 'q'], ['w', 'i'], ['w', 'u'], ['w', 'x'], ['w', 't'], ['w', 'b'],
    ['wsig', 2], ['wpath', 2],
    ['list', []], ['dict', []],
    ['list', [['pint']]], ['list', [['pint'], ['pint']]], ['list', [['pstr', 1], ['pstr', 1]]],
    ['list', [['w', 'y'], ['w', 'y']]], ['list', [['w', 't']]], ['list', [['pbool'], ['pbool']]],
    ['list', [['pint'], ['pstr', 1]]], ['list', [['pstr', 1], ['pint']]], ['list', [['pbool'], ['pint']]],
    ['list', [['pint'], ['pbool']]], ['list', [['pint'], ['w', 'i']]], ['list', [['w', 'i'], ['pint']]],
    ['list', [['pfloat', 1], ['pint']]], ['list', [['pint'], ['pfloat', 2]]],
    ['list', [['list', [['pint']]], ['list', [['pint'], ['pint']]]]],
    ['list', [['tuple', [['pint'], ['pstr', 1]]], ['tuple', [['pint'], ['pstr', 1]]]]],
    ['list', [['list', [['pint']]], ['pstr', 1]]],
    ['list', [['dict', [[['kstr', 'a'], ['pint']]]]]],
    ['tuple', [['pint']]], ['tuple', [['pint'], ['pstr', 1]]], ['tuple', [['w', 'y'], ['tuple', [['pbool'], ['w', 'x']]]]],
    ['tuple', [['list', [['pint']]], ['dict', [[['kstr', 'k'], ['w', 'y']]]]]],
    ['tuple', [['list', [['pint'], ['pstr', 1]]], ['pint']]],
    ['tuple', [['list', []], ['dict', []]]],
    ['dict', [[['kstr', 'a'], ['pint']]]], ['dict', [[['kstr', 'a'], ['pint']], [['kstr', 'b'], ['pint']]]],
    ['dict', [[['kstr', 'a'], ['pint']], [['kstr', 'b'], ['pstr', 1]]]],
    ['dict', [[['kstr', 'a'], ['pstr', 1]], [['kstr', 'b'], ['pint']]]],
    ['dict', [[['kint', 5], ['pstr', 1]]]], ['dict', [[['kw', 'y', 9], ['w', 'q']]]],
    ['dict', [[['kw', 't', 2 ** 63], ['list', [['pint']]]]]],
    ['dict', [[['kstr', 'a'], ['list', [['pint'], ['pstr', 1]]]]]],
    ['dict', [[['kstr', 'a'], ['dict', [[['kstr', 'b'], ['pbool']]]]]]],
    ['dict', [[['kstr', 'a'], ['tuple', [['pint'], ['w', 'u']]]], [['kstr', 'c'], ['tuple', [['pint'], ['w', 'u']]]]]],
    ['dict', [[['kstr', 'a'], ['pbool']], [['kstr', 'b'], ['pint']]]],
    ['dict', [[['kstr', 'a'], ['pint']], [['kstr', 'b'], ['pbool']]]],
    ['list', [['pba', [1, 2]], ['pba', [3]]]],
    ['list', [['wsig', 1], ['wsig', 3]]], ['list', [['wpath', 0], ['wpath', 1]]],
    ['dict', [[['kstr', 'p'], ['wpath', 1]]]],
]
# wide records: the inferred signature approaches the 255-character limit (its length byte crosses 127)
for _total in (127, 128, 129, 200, 255):
    VSHAPES.append(['tuple', [['pint']] + [['pfloat', 1]] * (_total - 3)])
VSHAPES.append(['list', [['tuple', [['w', 'y']] + [['pfloat', 2]] * 150]]])
VSHAPES.append(['tuple', [['tuple', [['pfloat', 1]] * 60 + [['pstr', 1]]], ['tuple', [['pfloat', 3]] * 80]]])


_feas = {}


def _feasible_prefixes(n, depth):
    """Class prefixes (length `depth`) of the valid signatures of length n, by enumeration over a reduced
    alphabet (i stands for every basic code, v for the variant)."""
    import itertools
    key = (n, depth)
    if key not in _feas:
        out = set()
        for chars in itertools.product('a(){}iv', repeat=n):
            if chars[0] in '){}':
                continue
            w = ''.join(chars)
            if is_valid(w):
                out.add(tuple(c if c in 'a(){}' else 'o' for c in w[:depth]))
        _feas[key] = out
    return _feas[key]


def _pytype(node):
    """Python class of the value a node builds (for the documented first-element rule)."""
    k = node[0]
    return {'pint': 'int', 'pbool': 'bool', 'pfloat': 'float', 'pstr': 'str', 'pba': 'bytearray',
            'wsig': 'Signature', 'wpath': 'ObjectPath', 'list': 'list', 'tuple': 'tuple',
            'dict': 'dict'}.get(k) or ('W' + node[1])


_BASES = {'bool': ['bool', 'int'], 'Signature': ['Signature', 'str'], 'ObjectPath': ['ObjectPath', 'str']}


def _isinstance(t, base):
    if t.startswith('W'):
        return base in (t, 'int')
    return base in _BASES.get(t, [t])


def ref_infer(node):
    """Inference rules as documented for txdbus variants."""
    k = node[0]
    if k == 'pint':
        return 'i'
    if k == 'pbool':
        return 'b'
    if k == 'pfloat':
        return 'd'
    if k == 'pstr':
        return 's'
    if k == 'pba':
        return 'ay'
    if k == 'w':
        return node[1]
    if k == 'wsig':
        return 'g'
    if k == 'wpath':
        return 'o'
    if k == 'tuple':
        return '(' + ''.join(ref_infer(c) for c in node[1]) + ')'
    if k == 'list':
        if not node[1]:
            return 'av'
        t0 = _pytype(node[1][0])
        if all(_isinstance(_pytype(c), t0) for c in node[1][1:]):
            return 'a' + ref_infer(node[1][0])
        return 'av'
    if k == 'dict':
        if not node[1]:
            return 'a{sv}'
        kn = node[1][0][0]
        vn = node[1][0][1]      # documented: inference is first-element based
        ks = {'kstr': 's', 'kint': 'i'}.get(kn[0]) or kn[1]
        t0 = _pytype(vn)
        if all(_isinstance(_pytype(v), t0) for _, v in node[1][1:]):
            return 'a{' + ks + ref_infer(vn) + '}'
        return 'a{' + ks + 'v}'
    raise ValueError(node)


def in_claim(node):
    """Containers whose elements share a Python class but not a DBus type are outside the claim."""
    k = node[0]
    if k in ('list', 'tuple'):
        kids = node[1]
    elif k == 'dict':
        kids = [v for _, v in node[1]]
    else:
        return True
    if not all(in_claim(c) for c in kids):
        return False
    if k == 'tuple' or not kids:
        return True
    t0 = _pytype(kids[0])
    if all(_isinstance(_pytype(c), t0) for c in kids[1:]):
        # travels as one element type: all must really have the first element's DBus type, or a
        # type that encodes under it (bool/wrapper-int under 'i' is the "common base type" case)
        s0 = ref_infer(kids[0])
        for c in kids[1:]:
            sc = ref_infer(c)
            if sc != s0 and not (s0 == 'i' and sc in ('b', 'i')):
                return False
    return True


def _only_wrappers(node):
    k = node[0]
    if k in ('w', 'wsig', 'wpath'):
        return True
    if k in ('list', 'tuple'):
        return bool(node[1]) and all(_only_wrappers(c) for c in node[1])
    if k == 'dict':
        return bool(node[1]) and all(kn[0] in ('kw',) and _only_wrappers(v) for kn, v in node[1])
    return False


def vleaves(node, out):
    k = node[0]
    if k in ('pint',):
        out.append(('int', 'i'))
    elif k == 'pbool':
        out.append(('bool', None))
    elif k == 'pstr':
        out.append(('str', node[1]))
    elif k == 'w':
        out.append(('bool', None) if node[1] == 'b' else ('int', node[1]))
    elif k in ('list', 'tuple'):
        for c in node[1]:
            vleaves(c, out)
    elif k == 'dict':
        for _, v in node[1]:
            vleaves(v, out)
    return out


def vbuild(node, it, marshal):
    """-> (python value, normal form expected after decode)"""
    k = node[0]
    if k in ('pint', 'pbool', 'pstr'):
        v = next(it)
        return v, v
    if k == 'pfloat':
        return FLOATS[node[1]], FLOATS[node[1]]
    if k == 'pba':
        return bytearray(node[1]), list(node[1])
    if k == 'w':
        v = next(it)
        if node[1] == 'b':
            return marshal.Boolean(v), v
        return marshal.variantClassMap[node[1]](v), v
    if k == 'wsig':
        return marshal.Signature(shapes.SIGS[node[1]]), shapes.SIGS[node[1]]
    if k == 'wpath':
        return marshal.ObjectPath(shapes.PATHS[node[1]]), shapes.PATHS[node[1]]
    if k in ('list', 'tuple'):
        ps, es = [], []
        for c in node[1]:
            p, e = vbuild(c, it, marshal)
            ps.append(p)
            es.append(e)
        return (tuple(ps) if k == 'tuple' else ps), es
    if k == 'dict':
        pd, ed = {}, {}
        for kn, vn in node[1]:
            if kn[0] == 'kstr':
                key = ek = kn[1]
            elif kn[0] == 'kint':
                key = ek = kn[1]
            else:
                ek = kn[2]
                key = marshal.variantClassMap[kn[1]](kn[2])
            p, e = vbuild(vn, it, marshal)
            pd[key] = p
            ed[ek] = e
        return pd, ed
    raise ValueError(node)


def peq(a, b):
    """Python equality after the documented normalisation (tuple->list, bytearray->ints)."""
    if isinstance(a, (list, tuple)):
        if not isinstance(b, (list, tuple)) or len(a) != len(b):
            return False
        for x, y in zip(a, b):
            if not peq(x, y):
                return False
        return True
    if isinstance(a, dict):
        if not isinstance(b, dict) or len(a) != len(b):
            return False
        for k in a:
            if k not in b or not peq(a[k], b[k]):
                return False
        return True
    return a == b


def obligations(tier):
    obs = []
    maxlen = 6 if tier == 'quick' else 7
    CLS = ['a', '(', ')', '{', '}', 'o']       # 'o' = any other character
    import itertools
    for n in range(1, maxlen + 1):
        depth = 1 if n <= 5 else (2 if n == 6 else 3)
        feasible = _feasible_prefixes(n, min(depth, n))
        for pre in itertools.product(CLS, repeat=min(depth, n)):
            if pre not in feasible:
                continue                        # no valid signature of length n starts with these classes
            if tier == 'quick' and n == 6 and 'o' in pre:
                continue                        # quick: length 6 only for container-heavy prefixes (aa, a(, a{, (a, (()
            to = 120 if n <= 4 else (400 if n == 5 else (900 if n == 6 else 3000))
            obs.append(Ob('split:len%d:%s' % (n, ''.join(pre)), 'split', {'n': n, 'pre': list(pre)},
                          timeout=to, path_timeout=30, twin=(n <= 5), functions=FUNCS[:1] + FUNCS[4:],
                          bounds='signature: symbolic string of length %d (first %d characters by class)' % (n, len(pre))))
    combos = [(0, True)] if tier == 'quick' else [(o, le) for o in (0, 1, 4, 7) for le in (True, False)]
    for i, sh in enumerate(VSHAPES):
        if not in_claim(sh):
            raise HarnessError('shape outside the claim listed: %r' % (sh,))
        for off, le in combos:
            rs = ref_infer(sh)
            if len(rs) > 24:
                rs = rs[:20] + '..%d' % len(rs)
            obs.append(Ob('infer:%02d:%s:o%d:%s' % (i, rs, off, 'le' if le else 'be'), 'infer',
                          {'shape': sh, 'off': off, 'le': le}, timeout=90, path_timeout=20,
                          twin=True, functions=FUNCS[1:4], bounds='leaves symbolic; shape concrete'))
    return obs


def build(family, p):
    from txdbus import marshal, interface
    if family == 'split':
        n, pre = p['n'], p['pre']

        def h(s):
            assume(len(s) == n)
            for i, cl in enumerate(pre):
                ch = s[i]
                if cl == 'o':
                    assume(ch != 'a' and ch != '(' and ch != ')' and ch != '{' and ch != '}')
                else:
                    assume(ch == cl)
            try:
                exp = split(s)
            except SigError:
                assume(False)
            got = list(marshal.genCompleteTypes(s))
            check(got == exp, 'genCompleteTypes differs from the grammar decomposition')
            check(''.join(got) == s, 'pieces do not concatenate to the input')
            m = interface.Method('M', s, s)
            sg = interface.Signal('S', s)
            interface.DBusInterface('org.example.I', m, sg, noRegister=True)
            check(m.nargs == len(exp) and m.nret == len(exp) and sg.nargs == len(exp),
                  'argument count differs from the number of complete types')
            reached()
        h.__name__ = 'split'
        import itertools
        wit = []
        pool = {1: ['i', 'v', 'h'], 2: ['ai', 'ii', 'vs', 'av'], 3: ['(i)', 'aai', 'a(i', 'vvv', 'ybn'],
                4: ['(ii)', 'a(i)', 'aaai', 'iiii', 'va{s'], 5: ['a{sv}', '(i(i)', '(iii)', 'aa(i)', 'vaaay'],
                6: ['a{s(i', '((ii))', 'a(i)ai', 'iiiiii', 'va{sv}', 'aa(i)i', 'a{sv}i', '(ii)ai', 'ia{sv}'], 7: ['a{s(i)}', '(i(ii))', 'aa{sv}i', 'vi(i)ai']}
        def cls_of(ch):
            return ch if ch in 'a(){}' else 'o'
        for w in pool.get(n, []):
            if len(w) == n and is_valid(w) and all(cls_of(w[i]) == pre[i] for i in range(len(pre))):
                wit.append((w,))
        return Spec(h, [('s', str)], witnesses=wit)

    sh, off, le = p['shape'], p['off'], p['le']
    kinds = vleaves(sh, [])
    params = [('v%d' % i, {'int': int, 'bool': bool, 'str': str}[k]) for i, (k, _) in enumerate(kinds)]
    want = ref_infer(sh)
    exact = _only_wrappers(sh)

    def h(*args):
        shapes.assume_leaves(kinds, args, assume)
        py, exp = vbuild(sh, iter(args), marshal)
        sig = marshal.sigFromPy(py)
        if exact:
            # only explicit wrapper types (and containers of them) pin the signature; for plain Python values the
            # statement asks for *a* single complete type under which the value round-trips, not a particular one
            check(sig == want, 'explicit wrapper types must select exactly their DBus type')
        check(len(split(sig)) == 1, 'inferred signature is not a single complete type')
        n, chunks = marshal.marshal('v', [py], off, le)
        data = b'\0' * off + b''.join(chunks)
        m, vals = marshal.unmarshal('v', data, off, le)
        check(m == n == len(data) - off, 'byte counts disagree')
        check(len(vals) == 1 and peq(vals[0], exp), 'variant round trip changed the value')
        reached()
    h.__name__ = 'infer'
    wit = [shapes.witness_values(kinds, w) for w in range(4)] if kinds else [()]
    return Spec(h, params, witnesses=wit)
