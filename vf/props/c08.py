"""C08 - each remote call completes exactly once, with the reply that belongs to it."""
from ..engine import Spec, assume, check, reached, HarnessError, notrace, decode_choice, encode_choice
from ..runner import Ob
from ..fakes import FakeTransport, install_clock_reactor, fresh_clock

PROPERTY = 'C08'
FUNCS = ('txdbus.client:DBusClientConnection.callRemote', 'txdbus.client:DBusClientConnection.callRemoteMessage',
         'txdbus.client:DBusClientConnection.methodReturnReceived', 'txdbus.client:DBusClientConnection.errorReceived',
         'txdbus.client:DBusClientConnection._onMethodTimeout', 'txdbus.client:DBusClientConnection._cbCvtReply',
         'txdbus.client:DBusClientConnection.connectionLost', 'txdbus.message:DBusMessage._marshal')
EXPLANATION = (
    'A real DBusClientConnection (FakeTransport, virtual clock) makes n real callRemote calls, then receives a sequence '
    'of events chosen by the solver: method return / error reply with a SYMBOLIC reply serial (any u32: equal to any '
    'pending call, to a completed one, or to none), clock advance by a symbolic amount against symbolic deadlines, or '
    'connection loss. After every event a reference model decides which Deferred must have fired, with what (value by '
    'the documented convention, RemoteError name/message/values, TimeOut, loss reason), that no other fired, that the '
    'bookkeeping entry and timer of a completed call are gone and the others intact. cvt: reply body shapes x declared '
    'return signatures.')
BOUNDS = {'quick': 'n <= 2 calls (each with or without deadline), up to 3 events, reply serial any u32, deadlines fixed (2,4,3 s), clock steps from {0,1,2,3,5}',
          'thorough': 'n <= 3 calls, up to 4 events'}
ASSUMPTIONS = ['serials of the outstanding calls are concrete (allocated by the real constructor from a fixed counter value); the reply serial is symbolic',
               'more than 3 concurrent calls are outside the claim (the statement\'s N=4 is not reached)',
               'callbacks attached by the harness do not re-enter the connection']
STUBS = ['FakeTransport', 'twisted task.Clock as reactor (client.reactor)']

BODIES = [(None, None), ('i', [7]), ('(ii)', [[1, 2]]), ('ii', [1, 2]), ('s', ['txt']), ('ai', [[1, 2, 3]]),
          # one value that is not a struct but has structs inside / around it; one-field structs; empty containers
          ('a(si)', [[['a', 1], ['b', 2]]]), ('a(si)', [[]]), ('a{s(ii)}', [{'k': [1, 2]}]), ('aa(i)', [[[[1]], []]]),
          ('(i)', [[5]]), ('((i))', [[[5]]]), ('a{sv}', [{'k': 1}]), ('v', [[1, 2]]), ('av', [[1, 'x']]), ('ai', [[]]),
          ('a(i)i', [[[1]], 2]), ('(i)(i)', [[1], [2]]), ('ay', [[1, 2]]), ('as', [[]])]
RETSIGS = ['__nocheck__', '', 'i', 's', '(ii)', 'a(si)']


def obligations(tier):
    obs = []
    ncalls = [1, 2] if tier == 'quick' else [1, 2, 3]
    for n in ncalls:
        for tmask in range(2 ** n):
            kmax = 3 if (tier == 'quick' and n <= 1) or tier == 'thorough' else 2
            if tier == 'thorough' and n <= 2:
                kmax = 4
            for k in range(1, kmax + 1):
                if k <= 2:
                    firsts = [None]
                elif k == 3:
                    firsts = [[a] for a in range(6)]
                else:
                    firsts = [[a, b] for a in range(6) for b in range(6)]
                for first in firsts:
                    obs.append(Ob('events:n%d:t%d:k%d:first%s' % (n, tmask, k, ''.join(map(str, first)) if first else None), 'events',
                                  {'n': n, 'tmask': tmask, 'k': k, 'first': first}, timeout=900, path_timeout=60,
                                  twin=(first in (None, [0], [0, 0])), functions=FUNCS[:5] + FUNCS[6:],
                                  bounds='event kinds, reply serials (u32), clock steps symbolic'))
    for bi in range(len(BODIES)):
        obs.append(Ob('cvt:body%d' % bi, 'cvt', {'body': bi}, timeout=120, path_timeout=30, twin=True, functions=FUNCS[5:6],
                      bounds='declared return signature selector symbolic; integer body values symbolic'))
    obs.append(Ob('noreply:options', 'noreply', {}, timeout=120, twin=True, functions=FUNCS[:2] + FUNCS[7:],
                  bounds='a call that expects no reply, with / without a deadline, next to a call that does; serial from a pool of 4 (selector); '
                         'late and unsolicited replies; clock advanced past every deadline'))
    obs.append(Ob('serial:distinct', 'serial', {}, timeout=60, twin=True, functions=FUNCS[:2] + FUNCS[7:],
                  bounds='serial counter symbolic'))
    return obs


def _mk_conn(client):
    from txdbus import router, objects
    c = client.DBusClientConnection()
    c.transport = FakeTransport()
    c._pendingCalls = {}
    c._dcCallbacks = []
    c.router = router.MessageRouter()
    c.match_rules = {}
    c.objHandler = objects.DBusObjectHandler(c)
    c.busName = ':1.7'
    c._authenticated = True
    c.factory = client.DBusClientFactory()
    c._receivedFDs = []
    return c


class Sink:
    """Records every firing of a Deferred."""

    def __init__(self, d):
        self.fired = []
        d.addCallbacks(lambda v: self.fired.append(('ok', v)) or None,
                       lambda f: self.fired.append(('err', f.value)) or None)


def build(family, p):
    install_clock_reactor()
    from txdbus import client, message, error, marshal
    from twisted.python import failure

    if family == 'serial':
        def h(S):
            assume(1 <= S <= 2 ** 32 - 10)
            with notrace():
                clock = fresh_clock()
                c = _mk_conn(client)
            message.DBusMessage._nextSerial = S
            c.callRemote('/p', 'A', destination='x.y', expectReply=False)
            c.callRemote('/p', 'B', destination='x.y', expectReply=False)
            w = [e[1] for e in c.transport.events if e[0] == 'write']
            m1 = message.parseMessage(w[0], [])
            m2 = message.parseMessage(w[1], [])
            check(m1.serial == S and m2.serial == S + 1, 'calls do not get consecutive fresh serials')
            check(c._pendingCalls == {}, 'a call without reply expectation left bookkeeping behind')
            reached()
        h.__name__ = 'serial'
        return Spec(h, [('S', int)], witnesses=[(1,), (2 ** 32 - 10,)])

    if family == 'noreply':
        def h(code):
            si, wd, of, lr = decode_choice(code, [4, 2, 2, 2])
            S = [1, 7, 2 ** 31, 2 ** 32 - 10][si]
            with_deadline, other_first, late_reply = bool(wd), bool(of), bool(lr)
            with notrace():
                run_nr(S, with_deadline, other_first, late_reply)
            reached()

        def run_nr(S, with_deadline, other_first, late_reply):
            if True:
                clock = fresh_clock()
                c = _mk_conn(client)
            message.DBusMessage._nextSerial = S
            kw = {'timeout': 2.0} if with_deadline else {}
            if other_first:
                so = Sink(c.callRemote('/p', 'Other', destination='x.y', timeout=4.0))
            s1 = Sink(c.callRemote('/p', 'A', destination='x.y', expectReply=False, **kw))
            if not other_first:
                so = Sink(c.callRemote('/p', 'Other', destination='x.y', timeout=4.0))
            check(s1.fired == [('ok', None)], 'a call that expects no reply completes at once with None')
            serial_a = S + 1 if other_first else S
            check(serial_a not in c._pendingCalls and len(c._pendingCalls) == 1,
                  'a call that expects no reply must leave no bookkeeping behind')
            with notrace():
                pend = clock.getDelayedCalls()
            check(len(pend) == 1, 'a completed call must leave no timer behind (only the other call has a deadline)')
            if late_reply:
                message.DBusMessage._nextSerial = 9000
                c.methodReturnReceived(message.MethodReturnMessage(serial_a, body=[1], signature='i'))
            clock.advance(3)
            check(s1.fired == [('ok', None)] and so.fired == [], 'a completion was delivered to another call / twice')
            clock.advance(2)
            check(len(so.fired) == 1 and so.fired[0][0] == 'err' and isinstance(so.fired[0][1], error.TimeOut),
                  'the call with a deadline must time out')
            check(s1.fired == [('ok', None)], 'a completed call completed again')
            with notrace():
                pend = clock.getDelayedCalls()
            check(c._pendingCalls == {} and pend == [], 'bookkeeping left after completion')
        h.__name__ = 'noreply'
        return Spec(h, [('code', int)], witnesses=[(0,), (31,), (4,), (13,)])

    if family == 'cvt':
        sig, body = BODIES[p['body']]

        def h(ri, v):
            assume(0 <= ri < len(RETSIGS))
            assume(-2 ** 31 <= v < 2 ** 31)
            with notrace():
                clock = fresh_clock()
                c = _mk_conn(client)
                message.DBusMessage._nextSerial = 50
            ret = RETSIGS[ri]
            kw = {} if ret == '__nocheck__' else {'returnSignature': ret}
            d = c.callRemote('/p', 'A', destination='x.y', **kw)
            s = Sink(d)
            b = body
            if sig == 'i':
                b = [v]
            elif sig == 'ii':
                b = [v, 2]
            elif sig == '(ii)':
                b = [[1, v]]
            c.methodReturnReceived(message.MethodReturnMessage(50, body=b, signature=sig))
            check(len(s.fired) == 1, 'call did not complete exactly once')
            kind, val = s.fired[0]
            sig_ok = (ret == '__nocheck__') or (ret == '' and not sig) or (ret != '' and ret == sig)
            if not sig_ok:
                check(kind == 'err' and isinstance(val, error.RemoteError), 'signature mismatch must give RemoteError')
            else:
                check(kind == 'ok', 'matching reply must complete with a value')
                if sig is None:
                    check(val is None, 'no value must give None')
                elif len(b) == 1 and sig[0] != '(':
                    check(val == b[0], 'one non-struct value must be delivered as that value')
                else:
                    check(val == b, 'several values / a struct must be delivered as the list of values')
            check(c._pendingCalls == {} and clock.getDelayedCalls() == [], 'bookkeeping left after completion')
            reached()
        h.__name__ = 'cvt'
        return Spec(h, [('ri', int), ('v', int)], witnesses=[(i, 5) for i in range(len(RETSIGS))])

    n, tmask, k = p['n'], p['tmask'], p['k']
    BASE = 100

    TOUTS = [2, 4, 3]

    ADV = {2: 1, 3: 2, 4: 5}     # event kinds 2..4 advance the clock by 1, 2, 5 seconds

    def h(*ev):
        touts = TOUTS[:n]
        kinds, rss = ev[0::2], ev[1::2]
        for kd in kinds:
            assume(0 <= kd < 6)
        if p.get('first') is not None:
            for i, f in enumerate(p['first']):
                assume(kinds[i] == f)
        for rs in rss:
            assume(0 <= rs < 2 ** 32)
        with notrace():
            clock = fresh_clock()
            c = _mk_conn(client)
            message.DBusMessage._nextSerial = BASE
        sinks = []
        # reference bookkeeping: serial -> deadline or None
        pending = {}
        for i in range(n):
            has_t = bool((tmask >> i) & 1)
            d = c.callRemote('/p', 'M%d' % i, destination='x.y', timeout=(touts[i] if has_t else None))
            sinks.append(Sink(d))
            pending[BASE + i] = touts[i] if has_t else None
        expected = [[] for _ in range(n)]      # per call: list of ('ok'|'err', tag)
        now = 0
        lost = False
        reason = failure.Failure(Exception('connection gone'))
        for j in range(k):
            kd, rs = kinds[j], rss[j]
            if kd == 0:
                m = message.MethodReturnMessage(rs, body=[j], signature='i')
                c.methodReturnReceived(m)
                if not lost:
                    for ser in list(pending):
                        if ser == rs:
                            expected[ser - BASE].append(('ok', j))
                            del pending[ser]
            elif kd == 1:
                m = message.ErrorMessage('org.x.Err%d' % j, rs, signature='s', body=['boom'])
                c.errorReceived(m)
                if not lost:
                    for ser in list(pending):
                        if ser == rs:
                            expected[ser - BASE].append(('remote', 'org.x.Err%d' % j))
                            del pending[ser]
            elif kd in (2, 3, 4):
                dt = 1 if kd == 2 else (2 if kd == 3 else 5)
                clock.advance(dt)
                now = now + dt
                for ser in sorted(pending):
                    dl = pending[ser]
                    if dl is not None and dl <= now:
                        expected[ser - BASE].append(('timeout', None))
                        del pending[ser]
            else:
                if not lost:
                    c.connectionLost(reason)
                    lost = True
                    for ser in sorted(pending):
                        expected[ser - BASE].append(('lost', None))
                    pending = {}
            # ---- compare after every event
            for i in range(n):
                got = sinks[i].fired
                exp = expected[i]
                check(len(got) == len(exp) and len(got) <= 1,
                      'a call completed a wrong number of times (or a completion went to another call)')
                if exp:
                    tag, info = exp[0]
                    kind, val = got[0]
                    if tag == 'ok':
                        check(kind == 'ok' and val == info, 'call completed with a value that is not its reply')
                    elif tag == 'remote':
                        check(kind == 'err' and isinstance(val, error.RemoteError) and val.errName == info
                              and val.message == 'boom' and val.values == ['boom'], 'error reply not mirrored as RemoteError')
                    elif tag == 'timeout':
                        check(kind == 'err' and isinstance(val, error.TimeOut), 'deadline must complete the call with TimeOut')
                    else:
                        check(kind == 'err' and val is reason.value, 'connection loss must fail the call with the loss reason')
            check(sorted(c._pendingCalls.keys()) == sorted(pending.keys()), 'bookkeeping differs from the outstanding calls')
            timers = sum(1 for v in pending.values() if v is not None)
            check(len([dc for dc in clock.getDelayedCalls() if dc.active()]) == timers,
                  'timers differ from the outstanding calls with a deadline')
        reached()
    h.__name__ = 'events'
    params = []
    for j in range(k):
        params += [('k%d' % j, int), ('rs%d' % j, int)]
    wit = []
    for variant in range(4):
        w = []
        for j in range(k):
            w += [(variant + j * 5) % 6, BASE + ((variant + j) % (n + 1))]
        wit.append(tuple(w))
    wit.append(tuple([0, BASE] * k))       # duplicate replies
    wit.append(tuple([4, 0] + [0, BASE] * (k - 1)))   # deadline then reply
    wit.append(tuple([5, 0] + [1, BASE] * (k - 1)))   # loss then reply
    wit.append(tuple(([1, BASE, 4, 0, 0, BASE, 1, BASE + 1])[:2 * k]))   # error reply, then the deadline passes
    wit.append(tuple(([1, BASE, 1, BASE + n - 1, 1, BASE, 0, BASE])[:2 * k]))   # error replies for two different calls
    wit.append(tuple(([0, BASE + n - 1, 4, 0, 5, 0, 1, BASE])[:2 * k]))   # return for the last call, deadline, loss
    if p.get('first') is not None:
        pre = list(p['first'])
        fixed = []
        for w in wit:
            w = list(w)
            for i, f in enumerate(pre):
                w[2 * i] = f
            fixed.append(tuple(w))
        wit = fixed
    return Spec(h, params, witnesses=wit)
