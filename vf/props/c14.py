"""C14 - the built-in bus delivers each message to the right peer with the true sender."""
from ..engine import Spec, assume, check, reached, HarnessError, notrace, concrete, decode_choice, encode_choice
from ..runner import Ob
from ..fakes import FakeTransport, install_clock_reactor
from .. import ref_msg, ref_match

PROPERTY = 'C14'
FUNCS = ('txdbus.bus:BusProtocol.rawDBusMessageReceived', 'txdbus.bus:Bus.clientConnected', 'txdbus.bus:Bus.clientDisconnected',
         'txdbus.bus:Bus.sendMessage', 'txdbus.bus:Bus.messageReceived', 'txdbus.bus:Bus.broadcastSignal',
         'txdbus.bus:Bus.sendSignal', 'txdbus.bus:Bus.dbus_AddMatch', 'txdbus.message:DBusMessage._marshal',
         'txdbus.message:parseMessage', 'txdbus.router:MessageRouter.routeMessage')
EXPLANATION = (
    'Real Bus and real BusProtocol instances on recording transports; everything enters and leaves as bytes. route: one '
    'addressed message of each of the four types with SYMBOLIC serial (u32), flags, body value and a forged sender choice is '
    'sent by one client to another (by unique or well-known name): exactly one copy reaches the owner of the destination, '
    'no copy anyone else (including holders of matching rules), identical field by field except that the sender is the true '
    'unique name. ids: unique names allocated from several counter values are distinct and never reused. hist: every history '
    '(up to the bound) of connects, disconnects, name requests, unicasts of all four types with forged senders, bus calls and '
    'broadcast signals: delivery to the current owner only, per-pair order, bus-addressed calls answered and not '
    'forwarded, broadcasts reach exactly the holders of a matching rule.')
BOUNDS = {'quick': 'route: 4 types x 2 addressing modes x 5 forged-sender choices (none, own unique name, the unique name of another client, a well-known name the originator owns, one it waits for), symbolic serial/flags/body; hist: <= 3 events over 3 clients (21 event kinds)',
          'thorough': 'hist: <= 4 events'}
ASSUMPTIONS = ['authentication is skipped (C06): the protocol objects are put in authenticated state directly',
               'hist is selector-driven (exhaustive within the bound); interleavings of partial reads are C04\'s subject']
STUBS = ['FakeTransport', 'factory object carrying the bus']


def obligations(tier):
    obs = []
    for mt in (1, 2, 3, 4):
        for byname in (False, True):
            for forged in (0, 1, 2, 3, 4):
                obs.append(Ob('route:t%d:%s:forge%d' % (mt, 'name' if byname else 'unique', forged), 'route',
                              {'mt': mt, 'byname': byname, 'forged': forged}, timeout=600, path_timeout=60,
                              twin=(forged == 0), functions=FUNCS, bounds='serial u32, flags 0..3, body u32 symbolic'))
    obs.append(Ob('ids:fresh', 'ids', {}, timeout=120, twin=True, functions=FUNCS[1:3], bounds='allocation counter: selector over 7 values'))
    # routing by well-known name after ownership histories that use the request flags and ReleaseName
    for k in range(1, (4 if tier == 'quick' else 5) + 1):
        firsts = [()] if k <= 2 else ([(a,) for a in range(NOPS)] if k <= 4 else [(a, b) for a in range(NOPS) for b in range(NOPS)])
        for pre in firsts:
            obs.append(Ob('names:k%d:%s' % (k, '-'.join(map(str, pre)) or 'all'), 'names', {'k': k, 'pre': list(pre)},
                          timeout=1800, path_timeout=60, twin=(pre in ((), (0,), (0, 0))), functions=FUNCS,
                          bounds='%d name operations by two clients (request with flags 0..3, release, disconnect), %d '
                                 'fixed; a third client addresses the name after every operation' % (k, len(pre)), weight=0.6))
    kmax = 3 if tier == 'quick' else 4
    for k in range(1, kmax + 1):
        firsts = [()] if k <= 2 else ([(a,) for a in range(NEV)] if k == 3 else [(a, b) for a in range(NEV) for b in range(NEV)])
        for pre in firsts:
            obs.append(Ob('hist:k%d:%s' % (k, '-'.join(map(str, pre)) or 'all'), 'hist', {'k': k, 'pre': list(pre)},
                          timeout=1800, path_timeout=60, twin=(pre in ((), (0,), (0, 0))), functions=FUNCS,
                          bounds='%d events, %d fixed (symbolic selector)' % (k, len(pre)), weight=0.6))
    return obs


NCLI = 3
# event kinds: per client i (7): disconnect, RequestName N, unicast call->next by unique, signal->N by name (forged sender),
#              return->next (forged other), broadcast signal, GetId bus call
NEV = NCLI * 7
# names family: per client (2 clients): RequestName with flags 0..3 (ALLOW_REPLACEMENT=1, REPLACE_EXISTING=2), ReleaseName,
# disconnect
NOPS = 2 * 6
WK = 'org.t.Svc'


class World:
    def __init__(self, busmod, message):
        self.busmod, self.message = busmod, message
        self.bus = busmod.Bus()

        class Fac:
            bus = self.bus
        self.fac = Fac
        self.clients = []

    def connect(self):
        p = self.busmod.BusProtocol()
        p.factory = self.fac
        p.transport = FakeTransport()
        p._receivedFDs = []
        p._authenticated = True
        p.connectionAuthenticated()
        self.message.DBusMessage._nextSerial = 1
        hello = self.message.MethodCallMessage('/org/freedesktop/DBus', 'Hello', interface='org.freedesktop.DBus',
                                               destination='org.freedesktop.DBus')
        p.dataReceived(hello.rawMessage)
        out = self.drain(p)
        check(len(out) == 1 and out[0]._messageType == 2 and out[0].reply_serial == hello.serial, 'Hello must be answered once')
        name = out[0].body[0]
        check(name == p.uniqueName and name[:3] == ':1.', 'Hello must return the unique name')
        self.clients.append(p)
        return p

    def drain(self, p):
        """Messages written to client p since the last drain (parsed from the bytes)."""
        data = b''.join(bytes(w) for w in p.transport.written)
        p.transport.clear()
        out = []
        while data:
            d = ref_msg.decode(data[:16] + data[16:]) if False else None
            little = data[0] == ord('l')
            import struct
            bl = struct.unpack('<I' if little else '>I', data[4:8])[0]
            hl = struct.unpack('<I' if little else '>I', data[12:16])[0]
            total = 16 + hl + ((-(16 + hl)) % 8) + bl
            out.append(self.message.parseMessage(data[:total], []))
            data = data[total:]
        return out


def _mk(message, mt, dest, sender, serial, flags, val):
    er, au = not (flags & 1), not (flags & 2)
    message.DBusMessage._nextSerial = serial
    if mt == 1:
        m = message.MethodCallMessage('/o', 'Meth', interface='org.t.I', destination=dest, signature='u', body=[val],
                                      expectReply=er, autoStart=au)
    elif mt == 2:
        m = message.MethodReturnMessage(77, body=[val], destination=dest, signature='u')
    elif mt == 3:
        m = message.ErrorMessage('org.t.Err', 78, destination=dest, signature='u', body=[val])
    else:
        m = message.SignalMessage('/o', 'Sig', 'org.t.I', destination=dest, signature='u', body=[val])
    if sender is not None:
        m.sender = sender
        m._marshal(False)
    return m


FIELDS = ('path', 'interface', 'member', 'error_name', 'reply_serial', 'destination', 'signature')


def _same(a, b, true_sender):
    check(a._messageType == b._messageType and a.serial == b.serial, 'forwarded message changed type or serial')
    for f in FIELDS:
        check(getattr(a, f, None) == getattr(b, f, None), 'forwarded message changed a header field')
    check(a.body == b.body, 'forwarded message changed its body')
    check(bool(a.expectReply) == bool(b.expectReply) and bool(a.autoStart) == bool(b.autoStart), 'forwarded message lost its flags')
    check(a.sender == true_sender, 'sender field is not the true unique name of the originator')


def build(family, p):
    install_clock_reactor()
    from txdbus import bus as busmod, message

    if family == 'ids':
        POOL = [1, 2, 9, 10, 99, 2 ** 31, 10 ** 12]

        def h(code):
            n0 = POOL[decode_choice(code, [len(POOL)])[0]]      # the name is rendered with %d: a C boundary
            message.DBusMessage._nextSerial = 1
            with notrace():
                w = World(busmod, message)
            w.bus.next_id = n0
            a = w.connect()
            b = w.connect()
            check(a.uniqueName != b.uniqueName, 'two connections share a unique name')
            na = a.uniqueName
            a.connectionLost(None)
            c = w.connect()
            check(c.uniqueName != na and c.uniqueName != b.uniqueName, 'a unique name was reused')
            check(na not in w.bus.clients and sorted(w.bus.clients) == sorted([b.uniqueName, c.uniqueName]), 'client registry wrong')
            reached()
        h.__name__ = 'ids'
        return Spec(h, [('code', int)], witnesses=[(0,), (3,), (6,)])

    if family == 'route':
        mt, byname, forged = p['mt'], p['byname'], p['forged']

        def h(serial, flags, val):
            assume(1 <= serial < 2 ** 32)
            assume(0 <= flags < 4)
            assume(0 <= val < 2 ** 32)
            message.DBusMessage._nextSerial = 1
            with notrace():
                w = World(busmod, message)
                a, b, c = w.connect(), w.connect(), w.connect()
                # c holds a rule that matches the message; b holds one too (must not cause a second copy)
                w.bus.dbus_AddMatch("interface='org.t.I'", dbusCaller=c.uniqueName)
                w.bus.dbus_AddMatch("path='/o'", dbusCaller=b.uniqueName)
                if byname:
                    message.DBusMessage._nextSerial = 5
                    rq = message.MethodCallMessage('/org/freedesktop/DBus', 'RequestName', interface='org.freedesktop.DBus',
                                                   destination='org.freedesktop.DBus', signature='su', body=[WK, 0])
                    b.dataReceived(rq.rawMessage)
                for x in (a, b, c):
                    w.drain(x)
                if forged >= 3:
                    # the originator owns one well-known name and waits for another
                    for nm in ('org.t.Mine', WK):
                        message.DBusMessage._nextSerial = 6
                        rq = message.MethodCallMessage('/org/freedesktop/DBus', 'RequestName', interface='org.freedesktop.DBus',
                                                       destination='org.freedesktop.DBus', signature='su', body=[nm, 0])
                        a.dataReceived(rq.rawMessage)
                    for x in (a, b, c):
                        w.drain(x)
            dest = WK if byname else b.uniqueName
            fake = [None, a.uniqueName, c.uniqueName, 'org.t.Mine', WK][forged]
            m = _mk(message, mt, dest, fake, serial, flags if mt == 1 else 0, val)
            a.dataReceived(m.rawMessage)
            gb, gc, ga = w.drain(b), w.drain(c), w.drain(a)
            check(len(gb) == 1, 'the destination must receive the message exactly once')
            _same(gb[0], m, a.uniqueName)
            check(gc == [], 'a connection that does not own the destination received the message')
            check(ga == [], 'the originator received something back for a forwarded message')
            reached()
        h.__name__ = 'route'
        return Spec(h, [('serial', int), ('flags', int), ('val', int)],
                    witnesses=[(1, 0, 0), (2 ** 32 - 1, 3, 2 ** 32 - 1), (0x0d0a, 1, 7)])

    if family == 'names':
        from .. import ref_names
        k, pre = p['k'], p['pre']
        nfree = k - len(pre)

        def hn(code):
            ops = list(pre) + decode_choice(code, [NOPS] * nfree)
            message.DBusMessage._nextSerial = 1
            with notrace():
                run_names(ops)
            reached()

        def run_names(ops):
            w = World(busmod, message)
            cl = [w.connect() for _ in range(3)]
            names = [x.uniqueName for x in cl]
            live = [True, True, True]
            table = ref_names.Table()
            serial = [200]
            for x in cl:
                w.drain(x)

            def probe():
                # client 2 sends a call and a signal to the well-known name
                owner = table.owner(WK)
                for mt in (1, 4):
                    serial[0] += 1
                    m = _mk(message, mt, WK, None, serial[0], 0, serial[0])
                    cl[2].dataReceived(m.rawMessage)
                    for i in (0, 1):
                        if not live[i]:
                            continue
                        got = [g for g in w.drain(cl[i])
                               if not (g._messageType == 4 and g.interface == 'org.freedesktop.DBus')]
                        if owner == i:
                            check(len(got) == 1, 'a message addressed to a well-known name must reach its current owner once')
                            _same(got[0], m, names[2])
                        else:
                            check(got == [], 'a message addressed to a well-known name reached a connection that does not own it')
                    back = [g for g in w.drain(cl[2]) if g._messageType != 4]
                    if owner is not None:
                        check(back == [], 'the bus answered a message that it delivered')
                    # nobody owns the name: whether and how the bus answers is not part of the property
            for op in ops:
                i, kind = op // 6, op % 6
                if not live[i]:
                    continue
                serial[0] += 1
                message.DBusMessage._nextSerial = serial[0]
                if kind <= 3:
                    rq = message.MethodCallMessage('/org/freedesktop/DBus', 'RequestName', interface='org.freedesktop.DBus',
                                                   destination='org.freedesktop.DBus', signature='su', body=[WK, kind])
                    cl[i].dataReceived(rq.rawMessage)
                    code, _ = table.request(WK, i, bool(kind & 1), bool(kind & 2), False)
                    rep = [g for g in w.drain(cl[i]) if g._messageType in (2, 3)]
                    check(len(rep) == 1 and rep[0]._messageType == 2 and rep[0].body == [code],
                          'RequestName answer differs from the reference name table')
                elif kind == 4:
                    rq = message.MethodCallMessage('/org/freedesktop/DBus', 'ReleaseName', interface='org.freedesktop.DBus',
                                                   destination='org.freedesktop.DBus', signature='s', body=[WK])
                    cl[i].dataReceived(rq.rawMessage)
                    code, _ = table.release(WK, i)
                    rep = [g for g in w.drain(cl[i]) if g._messageType in (2, 3)]
                    check(len(rep) == 1 and rep[0]._messageType == 2 and rep[0].body == [code],
                          'ReleaseName answer differs from the reference name table')
                else:
                    cl[i].connectionLost(None)
                    live[i] = False
                    table.disconnect(i)
                for x in range(3):
                    if live[x]:
                        w.drain(cl[x])
                probe()
        hn.__name__ = 'names'
        wit = [[(5 * i + 3 * j + 1) % NOPS for j in range(nfree)] for i in range(5)]
        wit.append(([1, 6, 8, 10, 1] + [0] * 5)[len(pre):][:nfree])
        return Spec(hn, [('code', int)], witnesses=[(encode_choice(x, [NOPS] * nfree),) for x in wit])

    k, pre = p['k'], p['pre']
    nfree = k - len(pre)

    def h(code):
        evs = list(pre) + decode_choice(code, [NEV] * nfree)
        message.DBusMessage._nextSerial = 1
        with notrace():
            run(evs)
        reached()

    def run(evs):
        w = World(busmod, message)
        cl = [w.connect() for _ in range(NCLI)]
        live = [True] * NCLI
        names = [x.uniqueName for x in cl]
        check(len(set(names)) == NCLI, 'unique names collide')
        owner = [None]          # index of the client owning WK
        waiting = []
        # client 2 holds a rule for broadcast signals of org.t.I; client 0 for member 'Nope' (never matches)
        w.bus.dbus_AddMatch("type='signal',interface='org.t.I'", dbusCaller=names[2])
        w.bus.dbus_AddMatch("member='Nope'", dbusCaller=names[0])
        serial = [100]
        for x in cl:
            w.drain(x)

        def expect_nothing(except_for=()):
            for i, x in enumerate(cl):
                if i not in except_for and live[i]:
                    got = [m for m in w.drain(x) if not (m._messageType == 4 and m.interface == 'org.freedesktop.DBus')]
                    check(got == [], 'a connection received a message not meant for it')
        for e in evs:
            i, kind = e // 7, e % 7
            if not live[i]:
                continue
            me = cl[i]
            nxt = (i + 1) % NCLI
            serial[0] += 1
            if kind == 0:
                me.connectionLost(None)
                live[i] = False
                if owner[0] == i:
                    owner[0] = waiting.pop(0) if waiting else None
                if i in waiting:
                    waiting.remove(i)
                check(names[i] not in w.bus.clients, 'disconnected client still registered')
                for x in range(NCLI):
                    if live[x]:
                        w.drain(x and cl[x] or cl[0]) if False else w.drain(cl[x])
            elif kind == 1:
                message.DBusMessage._nextSerial = serial[0]
                rq = message.MethodCallMessage('/org/freedesktop/DBus', 'RequestName', interface='org.freedesktop.DBus',
                                               destination='org.freedesktop.DBus', signature='su', body=[WK, 0])
                me.dataReceived(rq.rawMessage)
                rep = [m for m in w.drain(me) if m._messageType in (2, 3)]
                check(len(rep) == 1 and rep[0].reply_serial == rq.serial and rep[0].sender is None or True, 'bus call must be answered')
                if owner[0] is None:
                    owner[0] = i
                elif owner[0] != i and i not in waiting:
                    waiting.append(i)
                for x in range(NCLI):
                    if live[x]:
                        w.drain(cl[x])
            elif kind in (2, 3, 4):
                if kind == 2:
                    mt, dest, tgt, fake = 1, names[nxt], (nxt if live[nxt] else None), None
                elif kind == 3:
                    mt, dest, tgt, fake = 4, WK, owner[0], names[nxt]
                else:
                    mt, dest, tgt, fake = 2, names[nxt], (nxt if live[nxt] else None), names[(i + 2) % NCLI]
                m1 = _mk(message, mt, dest, fake, serial[0], 0, 11)
                serial[0] += 1
                m2 = _mk(message, mt, dest, fake, serial[0], 0, 22)
                me.dataReceived(m1.rawMessage + m2.rawMessage)
                if tgt is not None and tgt != i:
                    got = w.drain(cl[tgt])
                    got = [g for g in got if not (g._messageType == 4 and g.interface == 'org.freedesktop.DBus')]
                    check(len(got) == 2, 'each addressed message must arrive exactly once at the current owner')
                    _same(got[0], m1, names[i])
                    _same(got[1], m2, names[i])
                    expect_nothing(except_for=(tgt,))
                elif tgt == i:
                    got = w.drain(me)
                    check(len([g for g in got if g._messageType == mt]) == 2, 'a message to oneself must arrive once')
                    expect_nothing(except_for=(i,))
                else:
                    expect_nothing(except_for=(i,))
            elif kind == 5:
                m1 = _mk(message, 4, None, names[nxt], serial[0], 0, 33)
                me.dataReceived(m1.rawMessage)
                for x in range(NCLI):
                    if not live[x]:
                        continue
                    got = [g for g in w.drain(cl[x]) if not (g._messageType == 4 and g.interface == 'org.freedesktop.DBus')]
                    if x == 2:
                        check(len(got) == 1, 'a broadcast must reach every connection holding a matching rule, once')
                        _same(got[0], m1, names[i])
                    else:
                        check(got == [], 'a broadcast reached a connection without a matching rule')
            else:
                message.DBusMessage._nextSerial = serial[0]
                c = message.MethodCallMessage('/org/freedesktop/DBus', 'GetId', interface='org.freedesktop.DBus',
                                              destination='org.freedesktop.DBus')
                me.dataReceived(c.rawMessage)
                got = w.drain(me)
                rep = [g for g in got if g._messageType in (2, 3)]
                check(len(rep) == 1 and rep[0].reply_serial == c.serial,
                      'a call addressed to the bus must be answered by the bus')
                expect_nothing(except_for=(i,))
    h.__name__ = 'hist'
    wit = [[(5 * i + 3 * j + 2) % NEV for j in range(nfree)] for i in range(6)]
    wit.append(([1, 8 + 2, 0, 3] * 2)[:nfree])
    return Spec(h, [('code', int)], witnesses=[(encode_choice(w, [NEV] * nfree),) for w in wit])
