"""C09 - connecting always concludes; a lost connection fails all pending work once."""
from ..engine import Spec, assume, check, reached, HarnessError, notrace, concrete, decode_choice, encode_choice
from ..runner import Ob
from ..fakes import FakeTransport, install_clock_reactor, fresh_clock

PROPERTY = 'C09'
FUNCS = ('txdbus.client:connect', 'txdbus.client:DBusClientFactory.__init__', 'txdbus.client:DBusClientFactory._ok',
         'txdbus.client:DBusClientFactory._failed', 'txdbus.client:DBusClientConnection.connectionAuthenticated',
         'txdbus.client:DBusClientConnection._cbGotHello', 'txdbus.client:DBusClientConnection.connectionLost',
         'txdbus.objects:DBusObjectHandler.connectionLost', 'txdbus.objects:DBusObjectHandler.getRemoteObject',
         'txdbus.objects:RemoteDBusObject.notifyOnDisconnect', 'txdbus.endpoints:getDBusEndpoints')
EXPLANATION = (
    'addr: the real connect() walks address lists (unix / tcp / nonce-tcp / garbage entries, parsed by the real '
    'getDBusEndpoints) over fake endpoints whose reachability vector is chosen by the solver: tried in listed order, first '
    'reachable wins, none reachable gives ConnectError. crash: a scripted server (authentication lines, Hello reply or Hello '
    'error, or refusal) is delivered up to a solver-chosen CRASH POINT (every byte offset of the transcript) and the transport '
    'closes: once no event is left the Deferred returned by connect() has fired exactly once - with the connection iff the '
    'script completed. lost: an established connection with j calls in flight (with and without deadlines), disconnect '
    'callbacks on the connection and on proxies obtained with explicit and with introspected interfaces loses its transport: '
    'every call fails once with the reason, no timer is left, each callback ran once, and later replies / clock advances fire '
    'nothing. All variables are finite selectors: the solver contributes exhaustive coverage of crash points and vectors.')
BOUNDS = {'quick': 'addr: 7 address lists x all reachability vectors (<= 4 entries); crash: 4 transcripts x every byte offset; lost: j <= 3 calls x deadline masks x reply-before-loss choices',
          'thorough': 'same (the spaces are exhausted in quick); lost with j <= 4'}
ASSUMPTIONS = ['real sockets, DNS and launchd addresses are outside the claim (fake endpoints)',
               'the transport reports connectionLost after loseConnection() (as Twisted does)']
STUBS = ['FakeEndpoint patched into txdbus.endpoints (UNIXClientEndpoint / TCP4ClientEndpoint)', 'FakeTransport whose loseConnection is followed by connectionLost',
         'task.Clock as reactor', 'scripted server bytes built with the real message constructors']

ADDRS = ['unix:path=/a;tcp:host=h,port=1;nonce-tcp:host=h,port=2',
         'garbage;unix:abstract=x;;tcp:host=h,port=9',
         'unix:tmpdir=/t',
         'launchd:env=X;unix:path=/only;bogus:foo=bar;tcp:host=a,port=2',
         'unix:path=/a;unix:abstract=x;unix:tmpdir=/t',
         'unix:tmpdir=/t;nonce-tcp:host=h,port=3;unix:abstract=x;tcp:host=g,port=4',
         'tcp:host=h,port=1;tcp:host=g,port=1;unix:path=/b;unix:path=/c']
NEP = [3, 2, 1, 2, 3, 4, 4]
# where each usable entry of the list points (written from the address syntax of the specification, not from the
# code): ('unix', path) / ('unixdir', directory) / ('tcp', host, port)
TARGETS = [[('unix', '/a'), ('tcp', 'h', 1), ('tcp', 'h', 2)],
           [('unix', '\0x'), ('tcp', 'h', 9)],
           [('unixdir', '/t')],
           [('unix', '/only'), ('tcp', 'a', 2)],
           [('unix', '/a'), ('unix', '\0x'), ('unixdir', '/t')],
           [('unixdir', '/t'), ('tcp', 'h', 3), ('unix', '\0x'), ('tcp', 'g', 4)],
           [('tcp', 'h', 1), ('tcp', 'g', 1), ('unix', '/b'), ('unix', '/c')]]


def obligations(tier):
    obs = []
    for ai in range(len(ADDRS)):
        obs.append(Ob('addr:%d' % ai, 'addr', {'ai': ai}, timeout=300, twin=True, functions=FUNCS[:1] + FUNCS[10:],
                      bounds='reachability vector symbolic (all %d vectors)' % (2 ** NEP[ai])))
    obs.append(Ob('addr:none', 'addrnone', {}, timeout=60, twin=True, functions=FUNCS[:1] + FUNCS[10:], bounds='no valid entry'))
    for variant in ('ok', 'hello-error', 'refused', 'junk'):
        obs.append(Ob('crash:' + variant, 'crash', {'variant': variant}, timeout=900, path_timeout=60, twin=True,
                      functions=FUNCS[:7], bounds='crash point: every byte offset of the server transcript (symbolic selector)'))
    jmax = 3 if tier == 'quick' else 4
    for j in range(0, jmax + 1):
        obs.append(Ob('lost:j%d' % j, 'lost', {'j': j}, timeout=900, path_timeout=60, twin=True, functions=FUNCS[6:10],
                      bounds='deadline mask, which calls were already answered, proxy kinds: symbolic selectors'))
    return obs


class LossyTransport(FakeTransport):
    """loseConnection() is followed by connectionLost(), like a real transport."""

    def __init__(self, proto=None):
        FakeTransport.__init__(self)
        self.proto = proto
        self.closed = False

    def loseConnection(self):
        FakeTransport.loseConnection(self)

    def finish(self, reason):
        if not self.closed:
            self.closed = True
            self.proto.connectionLost(reason)


def _patch_endpoints(endpoints, reach, log):
    from twisted.internet import defer
    from twisted.internet.error import ConnectError
    counter = [0]

    class FakeEP:
        def __init__(self, reactor, *a, **kw):
            self.idx = counter[0]
            counter[0] += 1
            self.args = (a, kw)

        def target(self):
            a, kw = self.args
            if 'path' in kw or (len(a) == 1 and not kw):
                return ('unix', kw.get('path', a[0] if a else None))
            host = kw.get('host', a[0] if a else None)
            port = kw.get('port', a[1] if len(a) > 1 else None)
            return ('tcp', host, port)

        def connect(self, factory):
            log.append(('target', self.idx, self.target()))
            log.append(('try', self.idx))
            if not reach[self.idx]:
                return defer.fail(ConnectError(string='unreachable %d' % self.idx))
            p = factory.buildProtocol(None)
            t = LossyTransport(p)
            p.makeConnection(t)
            log.append(('up', self.idx, p))
            return defer.succeed(p)
    saved = (endpoints.UNIXClientEndpoint, endpoints.TCP4ClientEndpoint)
    endpoints.UNIXClientEndpoint = FakeEP
    endpoints.TCP4ClientEndpoint = FakeEP
    return saved


def _unpatch(endpoints, saved):
    endpoints.UNIXClientEndpoint, endpoints.TCP4ClientEndpoint = saved


class Fired:
    def __init__(self, d):
        self.res = []
        d.addCallbacks(lambda v: self.res.append(('ok', v)) or None, lambda f: self.res.append(('err', f)) or None)


def build(family, p):
    install_clock_reactor()
    from txdbus import client, endpoints, message, error, objects, interface
    from twisted.internet.error import ConnectError, ConnectionDone
    from twisted.python import failure

    if family == 'addrnone':
        def h(k):
            assume(0 <= k < 3)
            with notrace():
                clock = fresh_clock()
                log = []
                saved = _patch_endpoints(endpoints, [True] * 8, log)
                try:
                    f = Fired(client.connect(clock, ['garbage', 'bogus:a=b;;', 'launchd:env=X'][concrete(k)]))
                finally:
                    _unpatch(endpoints, saved)
                check(len(f.res) == 1 and f.res[0][0] == 'err' and f.res[0][1].check(ConnectError), 'no valid address must fail with ConnectError')
                check(log == [], 'nothing to try')
            reached()
        h.__name__ = 'addrnone'
        return Spec(h, [('k', int)], witnesses=[(0,), (1,), (2,)])

    if family == 'addr':
        ai = p['ai']
        n = NEP[ai]

        def h(code):
            bits = decode_choice(code, [2] * n)
            with notrace():
                run(bits)
            reached()

        def run(bits):
            clock = fresh_clock()
            log = []
            reach = [bool(b) for b in bits] + [False] * 4
            saved = _patch_endpoints(endpoints, reach, log)
            try:
                f = Fired(client.connect(clock, ADDRS[ai]))
            finally:
                _unpatch(endpoints, saved)
            tries = [e[1] for e in log if e[0] == 'try']
            for e in log:
                if e[0] == 'target' and e[1] < n:
                    want, got = TARGETS[ai][e[1]], e[2]
                    if want[0] == 'unixdir':
                        check(got[0] == 'unix' and isinstance(got[1], str) and got[1].startswith(want[1] + '/'),
                              'a listed address is tried at another socket than the one it names')
                    else:
                        check(got == want, 'a listed address is tried at another socket than the one it names')
            first = next((i for i in range(n) if reach[i]), None)
            if first is None:
                check(tries == list(range(n)), 'every address must be tried, in listed order')
                check(len(f.res) == 1 and f.res[0][0] == 'err' and f.res[0][1].check(ConnectError),
                      'no reachable address must fail the connect Deferred with ConnectError')
            else:
                check(tries == list(range(first + 1)), 'addresses must be tried in listed order up to the first reachable one')
                ups = [e for e in log if e[0] == 'up']
                check(len(ups) == 1 and ups[0][1] == first, 'exactly the first reachable address is used')
                check(f.res == [], 'the Deferred must wait for authentication and Hello')
        h.__name__ = 'addr'
        return Spec(h, [('code', int)], witnesses=[(0,), (2 ** n - 1,), (1,)])

    if family == 'crash':
        variant = p['variant']

        def transcript(hello_serial):
            message.DBusMessage._nextSerial = 900
            if variant == 'ok':
                return b'OK 1234\r\n' + message.MethodReturnMessage(hello_serial, body=[':1.5'], signature='s').rawMessage
            if variant == 'hello-error':
                return b'OK 1234\r\n' + message.ErrorMessage('org.freedesktop.DBus.Error.Failed', hello_serial,
                                                              signature='s', body=['no']).rawMessage
            if variant == 'refused':
                return b'REJECTED EXTERNAL\r\nREJECTED EXTERNAL\r\nREJECTED EXTERNAL\r\n'
            return b'OK 1234\r\n' + b'XX' + b'\0' * 20

        LEN = len(transcript(1))

        def h(code):
            c, chunked = decode_choice(code, [LEN + 1, 2])
            with notrace():
                run(c, chunked)
            reached()

        def run(c, chunked):
            clock = fresh_clock()
            log = []
            saved = _patch_endpoints(endpoints, [True] * 8, log)
            saved_gp = None
            try:
                message.DBusMessage._nextSerial = 1
                f = Fired(client.connect(clock, 'tcp:host=h,port=1'))
            finally:
                _unpatch(endpoints, saved)
            proto = [e for e in log if e[0] == 'up'][0][2]
            t = proto.transport
            script = transcript(901)     # transcript messages take serial 900; the client's Hello call is built next: 901
            data = script[:c]
            reason = failure.Failure(ConnectionDone('closed'))
            try:
                if chunked:
                    for i in range(len(data)):
                        if t.lost:
                            break
                        proto.dataReceived(data[i:i + 1])
                else:
                    if data:
                        proto.dataReceived(data)
            except Exception as e:
                # an exception out of dataReceived makes Twisted drop the connection
                reason = failure.Failure(e)
            t.finish(reason)
            clock.advance(1000)
            check(len(f.res) == 1, 'the Deferred returned by connect() must fire exactly once, whatever the crash point')
            if variant == 'ok' and c == LEN:
                check(f.res[0][0] == 'ok' and f.res[0][1] is proto and proto.busName == ':1.5',
                      'a completed handshake must deliver the ready connection')
            else:
                check(f.res[0][0] == 'err', 'an incomplete or refused handshake must fail the Deferred')
        h.__name__ = 'crash'
        return Spec(h, [('code', int)], witnesses=[(encode_choice([x, y], [LEN + 1, 2]),) for x in (0, 1, 9, 10, LEN - 1, LEN)
                                                    for y in (0, 1)])

    if family == 'lost':
        j = p['j']

        def h(code):
            sel = decode_choice(code, [2 ** j, 2 ** j, 2, 2, 4])
            with notrace():
                run(*sel)
            reached()

        def run(tmask, answered, with_cb, later_kind, cbh=0):
            from .c08 import _mk_conn, Sink
            clock = fresh_clock()
            message.DBusMessage._nextSerial = 100
            c = _mk_conn(client)
            ran = []
            if with_cb:
                c.notifyOnDisconnect(lambda conn, r: ran.append(('conn', r)))
            # proxies: explicit interface and introspected
            iface = interface.DBusInterface('org.t.P', interface.Method('M', '', ''), noRegister=True)
            res = []
            c.getRemoteObject('org.b', '/p1', iface).addCallback(res.append)
            check(len(res) == 1, 'explicit-interface proxy must be available at once')
            px1 = res[0]
            px1.notifyOnDisconnect(lambda o, r: ran.append(('px1', r)))
            res2 = []
            d = c.getRemoteObject('org.b', '/p2')
            d.addCallback(res2.append)
            w = [e[1] for e in c.transport.events if e[0] == 'write']
            intro = message.parseMessage(w[-1], [])
            xml = '<node name="/p2"><interface name="org.t.Q"><method name="N"/></interface></node>'
            message.DBusMessage._nextSerial = 500
            c.methodReturnReceived(message.MethodReturnMessage(intro.serial, body=[xml], signature='s'))
            check(len(res2) == 1, 'introspected proxy must be delivered after the Introspect reply')
            px2 = res2[0]
            px2.notifyOnDisconnect(lambda o, r: ran.append(('px2', r)))
            # further proxies for objects that already have one: every live proxy must be told
            res3 = []
            c.getRemoteObject('org.b', '/p2', iface).addCallback(res3.append)
            px3 = res3[0]
            want_extra = []

            def subscribe(px, tag, hist):
                # registration histories: callbacks cancelled and registered again before the loss
                a = lambda o, r: ran.append((tag + 'a', r))
                b = lambda o, r: ran.append((tag, r))
                if hist == 0:
                    px.notifyOnDisconnect(b)
                elif hist == 1:
                    px.notifyOnDisconnect(a)
                    px.cancelNotifyOnDisconnect(a)
                    px.notifyOnDisconnect(b)
                elif hist == 2:
                    px.notifyOnDisconnect(a)
                    px.notifyOnDisconnect(b)
                    px.cancelNotifyOnDisconnect(a)
                else:
                    px.notifyOnDisconnect(a)
                    px.cancelNotifyOnDisconnect(a)
                    return []
                return [tag]
            want_extra += subscribe(px3, 'px3', cbh)
            res4 = []
            c.getRemoteObject('org.b', '/p1', iface).addCallback(res4.append)
            px4 = res4[0]
            want_extra += subscribe(px4, 'px4', (cbh + 1) % 4)
            message.DBusMessage._nextSerial = 200
            sinks = []
            for i in range(j):
                has_t = bool((tmask >> i) & 1)
                sinks.append(Sink(c.callRemote('/x', 'M%d' % i, destination='org.b', timeout=(3 if has_t else None))))
            for i in range(j):
                if (answered >> i) & 1:
                    message.DBusMessage._nextSerial = 600 + i
                    c.methodReturnReceived(message.MethodReturnMessage(200 + i, body=[i], signature='i'))
            reason = failure.Failure(ConnectionDone('gone'))
            c.connectionLost(reason)
            for i in range(j):
                if (answered >> i) & 1:
                    check(sinks[i].fired == [('ok', i)], 'an answered call must keep its result')
                else:
                    check(len(sinks[i].fired) == 1 and sinks[i].fired[0][0] == 'err' and sinks[i].fired[0][1] is reason.value,
                          'every outstanding call must fail once with the loss reason')
            check([dc for dc in clock.getDelayedCalls() if dc.active()] == [], 'a timer survived the loss of the connection')
            check(c._pendingCalls == {}, 'bookkeeping survived the loss of the connection')
            want = (['conn'] if with_cb else []) + ['px1', 'px2'] + want_extra
            check(sorted(x[0] for x in ran) == sorted(want), 'every disconnect callback (connection and live proxies) must run exactly once')
            check(all(x[1] is reason for x in ran), 'disconnect callbacks must receive the loss reason')
            # nothing fires afterwards
            before = [list(s.fired) for s in sinks]
            nran = len(ran)
            if later_kind:
                clock.advance(100)
            else:
                for i in range(j):
                    message.DBusMessage._nextSerial = 700 + i
                    c.methodReturnReceived(message.MethodReturnMessage(200 + i, body=[9], signature='i'))
            check([list(s.fired) for s in sinks] == before and len(ran) == nran, 'something fired after the connection was lost')
        h.__name__ = 'lost'
        sizes = [2 ** j, 2 ** j, 2, 2, 4]
        return Spec(h, [('code', int)], witnesses=[(encode_choice([0, 0, 1, 0, 0], sizes),),
                                                    (encode_choice([2 ** j - 1, 0, 0, 1, 1], sizes),),
                                                    (encode_choice([0, 2 ** j - 1, 1, 1, 2], sizes),),
                                                    (encode_choice([0, 0, 0, 0, 3], sizes),)])
    raise KeyError(family)
