"""C16 - the exported-object tree seen remotely is exactly what was exported."""
import re

from ..engine import Spec, assume, check, reached, HarnessError, notrace, concrete, decode_choice, encode_choice
from ..runner import Ob

PROPERTY = 'C16'
FUNCS = ('txdbus.objects:DBusObjectHandler.exportObject', 'txdbus.objects:DBusObjectHandler.unexportObject',
         'txdbus.objects:DBusObjectHandler.getManagedObjects', 'txdbus.objects:DBusObjectHandler.handleMethodCallMessage',
         'txdbus.introspection:generateIntrospectionXML')
EXPLANATION = (
    'A real DBusObjectHandler receives a solver-chosen history of export / unexport operations over a pool of paths '
    'containing parents, children, grandchildren and siblings sharing a textual prefix; after the history every path of the '
    'pool (and one foreign path) is queried through the real handleMethodCallMessage: ordinary call (UnknownObject iff not '
    'exported), Introspect (child nodes == immediate children among the exported paths; error iff neither object nor '
    'descendants), GetManagedObjects (exactly the exported objects strictly beneath, each with all interfaces and readable '
    'properties). Every export / unexport must emit InterfacesAdded / InterfacesRemoved naming the path and interfaces. '
    'Operation selectors are finite: the solver contributes exhaustive coverage of the bounded history space.')
BOUNDS = {'quick': 'pool of 6 paths (/, /a, /a/b, /a/bc, /a/b/c, /b); every history of <= 3 operations; queries at 7 paths x 3 kinds before, between and after the operations of each history',
          'thorough': 'every history of <= 5 operations'}
ASSUMPTIONS = ['one object class (two interfaces, one readable, one write-only property) exported at different paths',
               'unexporting a path that is not exported is API misuse and skipped']
STUBS = ['recording connection object (sendMessage)']

POOL = ['/', '/a', '/a/b', '/a/bc', '/a/b/c', '/b']
QUERY = POOL + ['/zz']
NOPS = 2 * len(POOL)


def obligations(tier):
    obs = []
    kmax = 3 if tier == 'quick' else 5
    for k in range(1, kmax + 1):
        if k <= 2:
            prefixes = [()]
        elif k <= 4:
            prefixes = [(a,) for a in range(NOPS)]
        elif tier == 'thorough' and k == 5:
            prefixes = [(a, b) for a in range(NOPS) for b in range(NOPS)]
        else:
            prefixes = [(a, b) for a in range(NOPS) for b in range(NOPS)]
        for pre in prefixes:
            obs.append(Ob('hist:k%d:%s' % (k, '-'.join(map(str, pre)) or 'all'), 'hist', {'k': k, 'pre': list(pre)},
                          timeout=1800, path_timeout=60, twin=(pre in ((), (0,), (0, 0))), functions=FUNCS,
                          bounds='%d operations, %d fixed' % (k, len(pre)), weight=1.0 if k < 5 else 0.5))
    # the order in which objects were exported must not matter: every ordered selection of k paths, then optionally one
    # of them unexported and exported again
    for k in ((4, 5) if tier == 'quick' else (4, 5, 6)):
        for first in range(len(POOL)):
            obs.append(Ob('order:k%d:first%d' % (k, first), 'order', {'k': k, 'pre': [first]}, timeout=900, path_timeout=60,
                          twin=(first == 0), functions=FUNCS,
                          bounds='%d exports of distinct paths in every order (first fixed), then one path (symbolic) '
                                 'unexported and exported again; queries after every operation' % k))
    return obs


def _ordered(first, k, idx):
    """idx-th ordered selection of k distinct pool indexes starting with `first`."""
    rest = [i for i in range(len(POOL)) if i != first]
    out = [first]
    for pos in range(k - 1):
        n = len(rest)
        out.append(rest.pop(idx % n))
        idx //= n
    return out


def _n_ordered(k):
    n, total = len(POOL) - 1, 1
    for pos in range(k - 1):
        total *= n
        n -= 1
    return total


_world = {}


def _mk_world():
    if _world:
        return _world
    from txdbus import objects, interface
    from txdbus.interface import DBusInterface, Method, Property
    I1 = DBusInterface('org.t.Tree1', Method('Hello', '', 's'), Property('Name', 's'),
                       Property('Secret', 's', readable=False, writeable=True), noRegister=True)
    I2 = DBusInterface('org.t.Tree2', Method('Other', '', ''), noRegister=True)

    class Node(objects.DBusObject):
        dbusInterfaces = [I1, I2]
        name = objects.DBusProperty('Name')
        secret = objects.DBusProperty('Secret')

        def __init__(self, path):
            objects.DBusObject.__init__(self, path)
            self.name = 'node:' + path
            self.secret = 's3cret'

        def dbus_Hello(self):
            return 'hello from ' + self.getObjectPath()

        def dbus_Other(self):
            pass

    class Conn:
        def __init__(self):
            self.sent = []

        def sendMessage(self, m):
            self.sent.append(m)
    # warm class-level caches
    c = Conn()
    h = objects.DBusObjectHandler(c)
    n = Node('/warm')
    h.exportObject(n)
    h.getManagedObjects('/')
    _world.update(Node=Node, Conn=Conn)
    return _world


IFACES = ['org.t.Tree1', 'org.t.Tree2', 'org.freedesktop.DBus.Properties']


def build(family, p):
    from txdbus import objects, message
    W = _mk_world()
    k, pre = p['k'], p['pre']

    def call(handler, conn, path, member, iface=None):
        message.DBusMessage._nextSerial = 500
        m = message.MethodCallMessage(path, member, interface=iface)
        m.sender = ':1.4'
        n0 = len(conn.sent)
        handler.handleMethodCallMessage(m)
        out = conn.sent[n0:]
        check(len(out) == 1, 'a query must get exactly one reply')
        return out[0]

    nfree = k - len(pre)

    def h(code):
        ops = list(pre) + decode_choice(code, [NOPS] * nfree)      # one path per history; the run below is concrete
        message.DBusMessage._nextSerial = 1
        with notrace():
            run(ops)
        reached()

    def run(ops, query_after=None):
        conn = W['Conn']()
        handler = objects.DBusObjectHandler(conn)
        exported = set()

        def query_all():
            for q in QUERY:
                below = sorted(e for e in exported if e != q and e.startswith(q if q == '/' else q + '/'))
                kids = sorted({(e[len(q):] if q == '/' else e[len(q) + 1:]).split('/')[0] for e in below})
                r = call(handler, conn, q, 'NoSuchMember')
                if q in exported:
                    check(r._messageType == 3 and r.error_name == 'org.freedesktop.DBus.Error.UnknownMethod',
                          'exported path must reach its object')
                else:
                    check(r._messageType == 3 and r.error_name == 'org.freedesktop.DBus.Error.UnknownObject',
                          'a path that is not exported must answer UnknownObject')
                # a member the object really has: answered by the object iff it is exported now (a lookup that succeeded
                # earlier must not survive an unexport)
                for ifc in ('org.t.Tree1', None):
                    r = call(handler, conn, q, 'Hello', ifc)
                    if q in exported:
                        check(r._messageType == 2 and r.body == ['hello from ' + q], 'a call to an exported object must reach it')
                    else:
                        check(r._messageType == 3 and r.error_name == 'org.freedesktop.DBus.Error.UnknownObject',
                              'a call to a path that is not exported (any more) must answer UnknownObject')
                r = call(handler, conn, q, 'Introspect', 'org.freedesktop.DBus.Introspectable')
                if q in exported or below:
                    check(r._messageType == 2 and r.signature == 's', 'Introspect must succeed for an object or an inner node')
                    xml = r.body[0]
                    got = sorted(re.findall(r'<node name="([^"]*)"/>', xml))
                    check(got == kids, 'Introspect must list exactly the immediate children')
                    has_ifaces = 'interface name="org.t.Tree1"' in xml
                    check(has_ifaces == (q in exported), 'Introspect shows interfaces iff an object is exported there')
                else:
                    check(r._messageType == 3, 'Introspect must fail for a path with neither object nor descendants')
                r = call(handler, conn, q, 'GetManagedObjects', 'org.freedesktop.DBus.ObjectManager')
                if q in exported:
                    check(r._messageType == 2, 'GetManagedObjects on an exported path must succeed')
                    managed = r.body[0]
                    check(sorted(managed.keys()) == below, 'GetManagedObjects must report exactly the objects strictly beneath')
                    for path, ifs in managed.items():
                        check(sorted(ifs.keys()) == sorted(IFACES), 'each managed object lists all its interfaces')
                        check(ifs['org.t.Tree1'] == {'Name': 'node:' + path}, 'readable properties (only) are reported')
                else:
                    check(r._messageType == 3 and r.error_name == 'org.freedesktop.DBus.Error.UnknownObject',
                          'GetManagedObjects on a path that is not exported must answer UnknownObject')

        if query_after is None:
            query_all()      # queries may leave state behind (caches): ask before, between and after the operations
        for opi, op in enumerate(ops):
            path = POOL[op % len(POOL)]
            n0 = len(conn.sent)
            if op < len(POOL):
                handler.exportObject(W['Node'](path))
                exported.add(path)
                sigs = conn.sent[n0:]
                check(len(sigs) == 1 and sigs[0]._messageType == 4 and sigs[0].member == 'InterfacesAdded'
                      and sigs[0].interface == 'org.freedesktop.DBus.ObjectManager', 'export must announce InterfacesAdded')
                check(sigs[0].body[0] == path and sorted(sigs[0].body[1].keys()) == sorted(IFACES),
                      'InterfacesAdded must name the object path and its interfaces')
            elif path in exported:
                handler.unexportObject(path)
                exported.discard(path)
                sigs = conn.sent[n0:]
                check(len(sigs) == 1 and sigs[0]._messageType == 4 and sigs[0].member == 'InterfacesRemoved',
                      'unexport must announce InterfacesRemoved')
                check(sigs[0].body[0] == path and sorted(sigs[0].body[1]) == sorted(IFACES),
                      'InterfacesRemoved must name the object path and its interfaces')
            if query_after is None or opi in query_after:
                query_all()
    if family == 'order':
        total = _n_ordered(k)

        def ho(code):
            idx, j = decode_choice(code, [total, k + 1])
            message.DBusMessage._nextSerial = 1
            with notrace():
                sel = _ordered(pre[0], k, idx)
                ops = list(sel)
                if j < k:
                    ops += [len(POOL) + sel[j], sel[j]]
                run(ops, query_after={k - 1, len(ops) - 1})
            reached()
        ho.__name__ = 'order'
        return Spec(ho, [('code', int)], witnesses=[(0,), (total * (k + 1) - 1,), (encode_choice([total // 2, 1], [total, k + 1]),),
                                                   (encode_choice([total // 3, k], [total, k + 1]),)])
    h.__name__ = 'hist'
    base = [(2, 3, 4, 1), (1, 2, 8, 3), (0, 5, 6, 2), (4, 10, 4, 2), (3, 2, 9, 0)]
    wit = [(encode_choice(list(w[:nfree]), [NOPS] * nfree),) for w in base]
    return Spec(h, [('code', int)], witnesses=wit)
