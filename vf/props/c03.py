"""C03 - every constructible message is well-formed and parses back intact."""
import itertools

from ..engine import Spec, assume, check, reached, HarnessError, decode_choice, notrace
from ..runner import Ob
from .. import shapes, ref_codec, ref_msg
from ..ref_sig import split

PROPERTY = 'C03'
FUNCS = ('txdbus.message:DBusMessage._marshal', 'txdbus.message:MethodCallMessage.__init__',
         'txdbus.message:MethodReturnMessage.__init__', 'txdbus.message:ErrorMessage.__init__',
         'txdbus.message:SignalMessage.__init__', 'txdbus.message:parseMessage',
         'txdbus.marshal:marshal', 'txdbus.marshal:unmarshal')
EXPLANATION = (
    'ctor: the four real constructors run with a SYMBOLIC serial counter, reply serial, no-reply / '
    'no-autostart flags and body leaves; the produced bytes are decoded by an independent message decoder '
    '(vf/ref_msg.py) and every structural clause is asserted (fixed header, flags bits, field set with the '
    'spec variant types, zero padding to 8, body length, fresh non-zero serial, next message gets the next '
    'serial); the real parseMessage must recover type, serial, flags, fields, signature, body. '
    'parse: the reference encoder produces the bytes another implementation would send (both byte orders, '
    'field order permuted, an unknown field code symbolic in 10..255) and the real parseMessage must recover '
    'the same. limit: construction fails iff the size exceeds a SYMBOLIC limit; the default limit is 2^27.')
BOUNDS = {
    'quick': 'ctor: 4 types x every subset of optional fields x 5 body shapes (60 obligations); parse: 4 types '
             'x 2 byte orders x rotations+reversal of the field order x with/without unknown field x 2 bodies',
    'thorough': 'ctor: as quick x 2 name pools; parse: all permutations of up to 4 fields (24) and rotations beyond, '
                'x 5 bodies',
}
ASSUMPTIONS = [
    'serial counter in [1, 2^32-3] (wrap-around after 4e9 messages is outside the claim)',
    'names come from pools of valid names (validation itself is C18)',
    'body values follow C01\'s template family (symbolic leaves, concrete shape)',
    'the 128 MiB limit is checked on a symbolic limit value plus the class constant, not by building 128 MiB',
]
STUBS = []

BODIES = [('', 0), ('i', 0), ('ys', 1), ('a{sv}', 1), ('(ii)', 0), ('as', 2), ('v', 1)]
NAMES = [{'path': '/org/a', 'member': 'Mem', 'interface': 'org.a.I', 'destination': ':1.5',
          'sender': ':1.9', 'error_name': 'org.a.Err'},
         {'path': '/', 'member': '_m9', 'interface': 'A_1.b2', 'destination': 'org.b-c.D',
          'sender': 'x.y', 'error_name': 'E.r'}]
OPTIONAL = {'call': ['interface', 'destination'], 'return': ['destination'],
            'error': ['destination', 'sender'], 'signal': ['destination']}
MTYPE = {'call': 1, 'return': 2, 'error': 3, 'signal': 4}
CODE = {v: k for k, v in ref_msg.FIELD_NAME.items()}


def obligations(tier):
    obs = []
    pools = [0] if tier == 'quick' else [0, 1]
    bodies = BODIES[:5] if tier == 'quick' else BODIES
    for kind in ('call', 'return', 'error', 'signal'):
        opts = OPTIONAL[kind]
        for r in range(len(opts) + 1):
            for sub in itertools.combinations(opts, r):
                for bi, (bsig, L) in enumerate(bodies):
                    for pool in pools:
                        p = {'kind': kind, 'opt': list(sub), 'bsig': bsig, 'L': L, 'pool': pool,
                             'seed': bi * 7 + pool}
                        obs.append(Ob('ctor:%s:%s:%s:p%d' % (kind, '+'.join(sub) or 'none', bsig or 'nobody', pool),
                                      'ctor', p, timeout=120, path_timeout=30, twin=(tier == 'thorough' or len(obs) % 3 == 0), functions=FUNCS,
                                      bounds='serial counter, reply serial, flags, body leaves symbolic'))
    # parsing foreign encodings
    for kind in ('call', 'return', 'error', 'signal'):
        allf = {'call': ['path', 'interface', 'member', 'destination', 'sender', 'signature'],
                'return': ['reply_serial', 'destination', 'sender', 'signature'],
                'error': ['error_name', 'reply_serial', 'destination', 'sender', 'signature'],
                'signal': ['path', 'interface', 'member', 'destination', 'sender', 'signature']}[kind]
        pbodies = [('', 0), ('ys', 1)] if tier == 'quick' else bodies
        for bi, (bsig, L) in enumerate(pbodies):
            fl = [f for f in allf if f != 'signature' or bsig]
            orders = []
            if tier == 'thorough' and len(fl) <= 4:
                orders = list(itertools.permutations(range(len(fl))))
            else:
                n = len(fl)
                for k in range(n):
                    orders.append(tuple((i + k) % n for i in range(n)))
                orders.append(tuple(reversed(range(n))))
                if tier == 'thorough':
                    for k in range(n):
                        orders.append(tuple(reversed([(i + k) % n for i in range(n)])))
            seen = set()
            for oi, order in enumerate(orders):
                if order in seen:
                    continue
                seen.add(order)
                for le in (True, False):
                    for unk in (False, True):
                        if tier == 'quick' and unk and oi % 2:
                            continue
                        p = {'kind': kind, 'fields': [fl[i] for i in order], 'bsig': bsig, 'L': L, 'le': le,
                             'unk': unk, 'seed': bi + oi}
                        obs.append(Ob('parse:%s:%s:%s:%s:%s' % (kind, ''.join(str(i) for i in order),
                                                               bsig or 'nobody', 'le' if le else 'be',
                                                               'unk' if unk else 'std'),
                                      'parse', p, timeout=120, path_timeout=30, twin=(tier == 'thorough' or len(obs) % 3 == 0),
                                      functions=FUNCS[5:], bounds='serial, reply serial, flags, unknown code, '
                                      'body leaves symbolic'))
    for kind in ('call', 'return', 'error', 'signal'):
        obs.append(Ob('limit:' + kind, 'limit', {'kind': kind}, timeout=60, twin=True, functions=FUNCS[:5],
                      bounds='size limit symbolic'))
    obs.append(Ob('serial:end-of-range', 'wrap', {}, timeout=60, twin=True, functions=FUNCS[:2],
                  bounds='counter started 0..5 below 2^32 (selector), 8 messages of the four types built in a row'))
    obs.append(Ob('reserved-path', 'reserved', {}, timeout=30, twin=True, functions=FUNCS[1:2],
                  bounds='selector over 4 paths'))
    return obs


def _body(p):
    ctx = shapes.Ctx(p.get('seed', 0))
    nodes = [shapes.template(ct, p['L'], ctx) for ct in split(p['bsig'])] if p['bsig'] else []
    params, kinds = shapes.leaf_params(nodes, prefix='b')
    return nodes, params, kinds


def _inst(nodes, args, marshal):
    it = iter(args)
    py, exp, ref = [], [], []
    for nd in nodes:
        a, b, c = shapes.instantiate(nd, it, marshal, 0, False, None)
        py.append(a)
        exp.append(b)
        ref.append(c)
    return py, exp, ref


def _check_parsed(pm, kind, serial, flags_exp, fields, bsig, bexp, message):
    """fields: dict attr -> value expected on the parsed message"""
    check(type(pm) is {'call': message.MethodCallMessage, 'return': message.MethodReturnMessage,
                       'error': message.ErrorMessage, 'signal': message.SignalMessage}[kind],
          'parsed message has the wrong type')
    check(pm.serial == serial, 'parsed serial differs')
    no_reply, no_auto = flags_exp
    check(bool(pm.expectReply) == (not no_reply), 'parsed message lost the NO_REPLY_EXPECTED flag')
    check(bool(pm.autoStart) == (not no_auto), 'parsed message lost the NO_AUTO_START flag')
    for attr in ('path', 'interface', 'member', 'error_name', 'reply_serial', 'destination', 'sender'):
        want = fields.get(attr)
        got = getattr(pm, attr, None)
        check(got == want, 'parsed header field differs from the one sent')
    check((pm.signature or None) == (bsig or None), 'parsed signature differs')
    if bsig:
        check(shapes.deq(pm.body, bexp), 'parsed body differs')
    else:
        check(not pm.body, 'parsed body present although none was sent')


def build(family, p):
    from txdbus import marshal, message, error
    if family == 'ctor':
        kind, opt, bsig = p['kind'], p['opt'], p['bsig']
        nm = NAMES[p['pool']]
        nodes, bparams, kinds = _body(p)

        def h(S, rs, er, au, *bargs):
            assume(1 <= S <= 2 ** 32 - 3)
            assume(0 <= rs < 2 ** 32)
            shapes.assume_leaves(kinds, bargs, assume)
            py, exp, ref = _inst(nodes, bargs, marshal)
            message.DBusMessage._nextSerial = S
            dest = nm['destination'] if 'destination' in opt else None
            sig = bsig or None
            body = py if bsig else None
            fields = {}
            flags = 0
            if kind == 'call':
                iface = nm['interface'] if 'interface' in opt else None
                m = message.MethodCallMessage(nm['path'], nm['member'], interface=iface, destination=dest,
                                              signature=sig, body=body, expectReply=er, autoStart=au)
                fields = {'path': nm['path'], 'member': nm['member'], 'interface': iface}
                no_reply, no_auto = (not er), (not au)
            elif kind == 'return':
                m = message.MethodReturnMessage(rs, body=body, destination=dest, signature=sig)
                fields = {'reply_serial': rs}
                no_reply = no_auto = False
            elif kind == 'error':
                snd = nm['sender'] if 'sender' in opt else None
                m = message.ErrorMessage(nm['error_name'], rs, destination=dest, signature=sig, body=body,
                                         sender=snd)
                fields = {'error_name': nm['error_name'], 'reply_serial': rs, 'sender': snd}
                no_reply = no_auto = False
            else:
                m = message.SignalMessage(nm['path'], nm['member'], nm['interface'], destination=dest,
                                          signature=sig, body=body)
                fields = {'path': nm['path'], 'member': nm['member'], 'interface': nm['interface']}
                no_reply = no_auto = False
            fields['destination'] = dest
            fields = {k: v for k, v in fields.items() if v is not None}
            raw = m.rawMessage
            # -- serial
            check(m.serial == S, 'message did not take the next serial')
            check(message.DBusMessage._nextSerial == S + 1, 'serial counter not advanced by one')
            # -- structure, by the reference decoder
            d = ref_msg.decode(raw)          # either byte order is acceptable: the decoder follows the endianness byte
            check(d.type == MTYPE[kind], 'wrong message type byte')
            if kind == 'call':
                check(d.flags == (1 if no_reply else 0) + (2 if no_auto else 0), 'flags byte is not the spec bits')
            else:
                check(d.flags >= 0 and d.flags < 8, 'undefined flag bits set')
                no_reply, no_auto = (d.flags % 2 == 1), ((d.flags // 2) % 2 == 1)    # whatever was sent must parse back
            check(d.version == 1, 'protocol version is not 1')
            check(d.serial == S and d.serial != 0, 'serial on the wire differs / is zero')
            want = dict(fields)
            if bsig:
                want['signature'] = bsig
            got = {}
            for code, vsig, val in d.fields:
                check(code in ref_msg.FIELD_SIG, 'unknown header field emitted')
                check(vsig == ref_msg.FIELD_SIG[code], 'header field has the wrong variant type')
                check(ref_msg.FIELD_NAME[code] not in got, 'header field emitted twice')
                got[ref_msg.FIELD_NAME[code]] = val
            check(set(got) == set(want), 'header field set differs from the message')
            for k in want:
                check(got[k] == want[k], 'header field value differs')
            for code in ref_msg.REQUIRED[MTYPE[kind]]:
                check(ref_msg.FIELD_NAME[code] in got, 'required header field missing')
            check((d.header_len + len(d.padding)) % 8 == 0, 'header not padded to 8')
            check(d.padding == b'\0' * len(d.padding), 'header padding not zero')
            check(d.body_len == len(d.body), 'declared body length differs from the body')
            check(m.bodyLength == len(d.body) and len(m.rawBody) == len(d.body), 'bodyLength attribute differs')
            check(m.rawHeader + m.rawPadding + m.rawBody == raw, 'raw parts do not add up')
            if bsig:
                check(d.body == ref_codec.encode(bsig, ref, 0, d.little), 'body bytes are not the wire format')
            else:
                check(len(d.body) == 0, 'body present without signature')
            # -- parse back
            pm = message.parseMessage(raw, [])
            _check_parsed(pm, kind, S, (no_reply, no_auto), fields, bsig, exp, message)
            # -- next message gets a distinct serial
            m2 = message.MethodReturnMessage(rs)
            check(m2.serial == S + 1 and m2.serial != m.serial, 'second message reused the serial')
            reached()
        h.__name__ = 'ctor'
        params = [('S', int), ('rs', int), ('er', bool), ('au', bool)] + list(bparams)
        wit = []
        for w in range(4):
            wit.append((1 if w == 0 else (2 ** 32 - 3 if w == 1 else 77 + w), [0, 2 ** 32 - 1, 5, 9][w],
                        bool(w & 1), bool(w & 2)) + shapes.witness_values(kinds, w))
        return Spec(h, params, witnesses=wit)

    if family == 'parse':
        kind, fl, bsig, le, unk = p['kind'], p['fields'], p['bsig'], p['le'], p['unk']
        nm = NAMES[0]
        nodes, bparams, kinds = _body(p)

        def h(serial, rs, fb, uc, *bargs):
            assume(1 <= serial < 2 ** 32)
            assume(0 <= rs < 2 ** 32)
            assume(0 <= fb < 4)
            assume(10 <= uc <= 255)
            shapes.assume_leaves(kinds, bargs, assume)
            py, exp, ref = _inst(nodes, bargs, marshal)
            fields = []
            want = {}
            for f in fl:
                code = CODE[f]
                if f == 'reply_serial':
                    val = rs
                elif f == 'signature':
                    val = bsig
                else:
                    val = nm[f]
                fields.append((code, ref_msg.FIELD_SIG[code], val))
                if f != 'signature':
                    want[f] = val
            if unk:
                fields.insert(len(fields) // 2, (uc, 's', 'future'))
            raw = ref_msg.encode(MTYPE[kind], fb, serial, fields, bsig, ref, le)
            pm = message.parseMessage(raw, [])
            _check_parsed(pm, kind, serial, (fb % 2 == 1, fb >= 2), want, bsig, exp, message)
            reached()
        h.__name__ = 'parse'
        params = [('serial', int), ('rs', int), ('fb', int), ('uc', int)] + list(bparams)
        wit = []
        for w in range(4):
            wit.append(([1, 2 ** 32 - 1, 300, 65536][w], [0, 2 ** 32 - 1, 5, 9][w], w, [10, 255, 11, 100][w])
                       + shapes.witness_values(kinds, w))
        return Spec(h, params, witnesses=wit)

    if family == 'limit':
        kind = p['kind']
        base = {'call': message.MethodCallMessage, 'return': message.MethodReturnMessage,
                'error': message.ErrorMessage, 'signal': message.SignalMessage}[kind]

        def mk(cls):
            if kind == 'call':
                return cls('/p', 'M', signature='s', body=['0123456789'])
            if kind == 'return':
                return cls(7, body=['0123456789'], signature='s')
            if kind == 'error':
                return cls('a.E', 7, signature='s', body=['0123456789'])
            return cls('/p', 'M', 'a.b', signature='s', body=['0123456789'])

        def h(L):
            assume(0 <= L <= 2 ** 28)
            message.DBusMessage._nextSerial = 1
            size = len(mk(base).rawMessage)

            class Limited(base):
                _maxMsgLen = L
            ok = True
            try:
                mk(Limited)
            except error.MarshallingError:
                ok = False
            check(ok == (size <= L), 'construction must fail iff the message exceeds the limit')
            check(base._maxMsgLen == 2 ** 27 and message.DBusMessage._maxMsgLen == 2 ** 27,
                  'protocol limit is not 128 MiB')
            reached()
        h.__name__ = 'limit'
        return Spec(h, [('L', int)], witnesses=[(0,), (2 ** 27,), (40,), (1000,)])

    if family == 'wrap':

        def hw(code):
            d = decode_choice(code, [6])[0]
            with notrace():
                message.DBusMessage._nextSerial = 2 ** 32 - 1 - d
                seen = []
                try:
                    for i in range(8):
                        try:
                            if i % 4 == 0:
                                m = message.MethodCallMessage('/a', 'M')
                            elif i % 4 == 1:
                                m = message.SignalMessage('/a', 'S', 'a.b')
                            elif i % 4 == 2:
                                m = message.MethodReturnMessage(5)
                            else:
                                m = message.ErrorMessage('a.b.E', 5)
                        except Exception:
                            continue            # not constructible at the end of the serial range: nothing is sent
                        back = message.parseMessage(m.rawMessage, [])
                        check(m.serial == back.serial and 1 <= back.serial < 2 ** 32, 'a message went out with serial 0 / a serial that does not fit')
                        check(back.serial not in seen, 'a serial was used twice')
                        seen.append(back.serial)
                finally:
                    message.DBusMessage._nextSerial = 1
            reached()
        hw.__name__ = 'wrap'
        return Spec(hw, [('code', int)], witnesses=[(0,), (3,), (5,)])

    if family == 'reserved':
        PATHS = ['/org/freedesktop/DBus/Local', '/org/freedesktop/DBus/Loca', '/org/freedesktop/DBus',
                 '/org/freedesktop/DBus/Local/x']

        def h(k):
            assume(0 <= k < 4)
            message.DBusMessage._nextSerial = 1
            ok = True
            try:
                message.MethodCallMessage(PATHS[k], 'M')
            except error.MarshallingError:
                ok = False
            check(ok == (k != 0), 'only the reserved path is refused')
            reached()
        h.__name__ = 'reserved'
        return Spec(h, [('k', int)], witnesses=[(0,), (1,), (2,), (3,)])
    raise KeyError(family)
