"""C04 - message framing is independent of how the byte stream is split into reads."""
from ..engine import Spec, assume, check, reached, HarnessError, notrace, decode_choice, encode_choice
from ..runner import Ob
from ..streamview import Stream, StreamView, StructShim

PROPERTY = 'C04'
FUNCS = ('txdbus.protocol:BasicDBusProtocol.dataReceived',
         'txdbus.protocol:BasicDBusProtocol.rawDBusMessageReceived',
         'txdbus.protocol:BasicDBusProtocol.setAuthenticationSucceeded',
         'txdbus.message:parseMessage')
EXPLANATION = (
    'frame: the real BasicDBusProtocol.dataReceived runs on a stream-view proxy: k messages whose endianness '
    'byte and the 8 bytes of their two length fields are solver variables (every body / header-array length '
    '< 2^32 in either byte order) are delivered in n reads of UNBOUNDED symbolic sizes; exactly the complete '
    'messages must be handed over, once, in order, with the exact byte ranges, and the buffer must hold exactly '
    'the undelivered remainder. step: from an arbitrary consistent buffer state, two reads (a, b) are '
    'equivalent to one read (a+b): an inductive step that extends frame to any number of reads. bytes: real '
    'messages (real constructors little-endian, reference encoder big-endian, symbolic serial/body) are '
    'concatenated, cut at symbolic choices from representative positions and dispatched by the default '
    'rawDBusMessageReceived: parsed content equals what was sent. hs: line mode with a stub authenticator - '
    'auth lines and first binary messages in one stream, cut anywhere.')
BOUNDS = {
    'quick': 'frame: (k messages, n reads) in {(1,1),(1,2),(1,3),(2,2)}; step: k=2; bytes: 2 messages, 2 cuts from '
             '~12 representative positions; hs: 2 lines + 2 messages, 1-2 cuts; hsbig: a first message of 100..40000 bytes in the same read as the last handshake line',
    'thorough': 'frame: adds (2,3),(3,2),(3,3 split by endianness); step: k=3; bytes: 3 messages, 2 cuts; hs: 3 lines + 2 messages',
}
ASSUMPTIONS = [
    'frame/step: message content other than the endianness byte and the two length fields is arbitrary and not '
    'inspected by framing; a read of such a byte returns an unconstrained symbolic byte',
    'the endianness byte is "l" or "B" (other values are not valid DBus)',
    'reads are non-empty (Twisted never delivers an empty read)',
    'frame quantifies read sizes without bound but the number of reads and messages is bounded; step lifts the number of reads',
]
STUBS = ['StreamView/StructShim stand in for bytes and the struct module inside txdbus.protocol (frame, step)',
         'rawDBusMessageReceived overridden by a recorder (frame, step); default dispatch in bytes/hs',
         'FakeTransport; stub authenticator that succeeds on the line BEGIN (hs)']


def obligations(tier):
    obs = []
    fr = [(1, 1), (1, 2), (1, 3), (2, 2)] if tier == 'quick' else [(1, 1), (1, 2), (1, 3), (2, 2), (2, 3), (3, 2)]
    for k, n in fr:
        # split by the endianness pattern so that each obligation is smaller
        for pat in range(2 ** k):
            ends = [bool((pat >> j) & 1) for j in range(k)]
            to = 120 if (k, n) in ((1, 1), (1, 2), (1, 3), (2, 2)) else 1200
            obs.append(Ob('frame:k%d:n%d:%s' % (k, n, ''.join('l' if e else 'B' for e in ends)), 'frame',
                          {'k': k, 'n': n, 'ends': ends}, timeout=to, path_timeout=60, twin=True, functions=FUNCS[:1],
                          bounds='all length fields < 2^32, read sizes >= 1 unbounded'))
    for k in ([2] if tier == 'quick' else [2, 3]):
        for pat in range(2 ** k):
            ends = [bool((pat >> j) & 1) for j in range(k)]
            obs.append(Ob('step:k%d:%s' % (k, ''.join('l' if e else 'B' for e in ends)), 'step',
                          {'k': k, 'ends': ends}, timeout=300 if k == 2 else 1800, path_timeout=60, twin=True,
                          functions=FUNCS[:1], bounds='arbitrary consistent buffer state; reads a, b >= 1 unbounded'))
    nmsg = 2 if tier == 'quick' else 3
    for c1 in range(len(_cut_positions(nmsg)) + 1):
        obs.append(Ob('bytes:m%d:cut%d' % (nmsg, c1), 'bytes', {'nmsg': nmsg, 'c1': c1}, timeout=300,
                      path_timeout=60, twin=True, functions=FUNCS,
                      bounds='serials, body values symbolic; first cut fixed, second cut symbolic selector'))
    for variant in ('client', 'server'):
        cuts = _hs_cuts(variant)
        pre = len(_hs_prefix(variant))
        seconds = [0] if tier == 'quick' else [0, pre, pre + 16, pre + 1]
        quick_cuts = {0} | {cuts.index(x) + 1 for x in (pre - 1, pre, pre + 1, pre + 16)}
        for c1 in range(len(cuts) + 1):
            if tier == 'quick' and c1 not in quick_cuts:
                continue
            for c2 in seconds:
                for v1 in ([0x0d0a0d0a] if tier == 'quick' else [0x0d0a0d0a, 7]):
                    obs.append(Ob('hs:%s:cut%d:%d:v%x' % (variant, c1, c2, v1), 'hs',
                                  {'variant': variant, 'c1': c1, 'c2': c2, 'v1': v1}, timeout=300,
                                  path_timeout=60, twin=(tier == 'thorough' or c1 == 0), functions=FUNCS,
                                  bounds='serial of the first message (u32) and both flags symbolic; cuts concrete'))
    # the next read arrives while a message handler of the same connection is still running (in-process / loop-back
    # transports deliver synchronously): still the same stream, cut into the same reads
    total3 = sum(_msg_lengths(3))
    for nested in range(3):
        for c1 in ([0] + _cut_positions(3) if tier == 'quick' else range(total3 + 1)):
            obs.append(Ob('reent:after%d:cut%d' % (nested, c1), 'reent', {'nmsg': 3, 'nested': nested, 'c1': c1}, timeout=300,
                          path_timeout=60, twin=(c1 % 16 == 0), functions=FUNCS, weight=0.3,
                          bounds='3 messages, first cut fixed, second cut symbolic (every byte position); the reads after '
                                 'the first are delivered from inside the handler of delivered message number %d' % nested))
    for variant in ('client', 'server'):
        obs.append(Ob('hsbig:%s' % variant, 'hsbig', {'variant': variant}, timeout=600, path_timeout=120, twin=True,
                      functions=FUNCS, bounds='first message of 6 sizes around the 16 KiB line limit x 5 ways of cutting the stream (symbolic selector)'))
    if tier == 'thorough':
        for pat in range(8):
            ends = [bool((pat >> j) & 1) for j in range(3)]
            obs.append(Ob('frame:k3:n3:%s' % ''.join('l' if e else 'B' for e in ends), 'frame',
                          {'k': 3, 'n': 3, 'ends': ends}, timeout=2400, path_timeout=60, twin=False,
                          functions=FUNCS[:1], bounds='all length fields < 2^32, read sizes >= 1 unbounded'))
    return obs


def _real_messages(nmsg, vals, message, ref_msg):
    """Concrete-shape messages with symbolic serials/bodies. Returns (list of raw bytes, expectations)."""
    s1, v1, s2, y2, s3 = vals
    out, exp = [], []
    message.DBusMessage._nextSerial = s1
    m1 = message.MethodCallMessage('/a/b', 'Ping', interface='org.a.I', destination='org.b', signature='u', body=[v1])
    out.append(m1.rawMessage)
    exp.append((1, s1, [v1]))
    raw2 = ref_msg.encode(4, 0, s2, [(1, 'o', '/x'), (2, 's', 'org.x.Y'), (3, 's', 'Sig'), (8, 'g', 'ys')],
                          'ys', [y2, 'h\u00e9'], little=False)
    out.append(raw2)
    exp.append((4, s2, [y2, 'h\u00e9']))
    if nmsg >= 3:
        message.DBusMessage._nextSerial = s3
        m3 = message.MethodReturnMessage(s1, body=['ok'], signature='s', destination=':1.2')
        out.append(m3.rawMessage)
        exp.append((2, s3, ['ok']))
    return out, exp


def _msg_lengths(nmsg):
    from txdbus import message
    from .. import ref_msg
    raws, _ = _real_messages(nmsg, (1, 2, 3, 4, 5), message, ref_msg)
    return [len(r) for r in raws]


def _cut_positions(nmsg):
    lens = _msg_lengths(nmsg)
    pos = set()
    start = 0
    for L in lens:
        for d in (1, 4, 8, 15, 16, 17, L - 1):
            if 0 < d < L:
                pos.add(start + d)
        start += L
        pos.add(start)
    total = sum(lens)
    return sorted(x for x in pos if 0 < x < total)


HS_LINES = {'client': [b'DATA 00', b'OK 1234'], 'server': [b'AUTH X', b'BEGIN']}


def _hs_prefix(variant):
    return b''.join(l + b'\r\n' for l in HS_LINES[variant])


def _hs_cuts(variant):
    pre = len(_hs_prefix(variant))
    first = len(HS_LINES[variant][0])
    L = _msg_lengths(2)[0]
    return sorted({1, first, first + 1, first + 2, pre - 2, pre - 1, pre, pre + 1, pre + 8, pre + 9, pre + 10, pre + 15,
                   pre + 16, pre + 17, pre + L - 1, pre + L, pre + L + 1})



def _feed(pr, view):
    """dataReceived on the abstract stream.  The proxy stands for an immutable byte string that is concatenated, sliced,
    compared and unpacked; a tree whose buffer handling does something else with its input (bytearray +=, memoryview,
    ...) cannot be analysed through it: that is a limit of the harness, not a finding (the bytes family runs on real
    byte strings)."""
    try:
        pr.dataReceived(view)
    except (TypeError, AttributeError, NotImplementedError) as e:
        raise HarnessError('the stream proxy does not support this tree\'s buffer handling: %s' % type(e).__name__)

def _mk_proto(protocol):
    class Rec(protocol.BasicDBusProtocol):
        def __init__(self):
            self.got = []

        def rawDBusMessageReceived(self, raw):
            self.got.append(raw)
    return Rec


def _stream_params(k):
    params = []
    for j in range(k):
        for nm in ('b', 'h'):
            for i in range(4):
                params.append(('%s%d_%d' % (nm, j, i), int))
    return params


def _mk_stream(k, ends, args, garbage):
    bodies, harrs = [], []
    for j in range(k):
        bodies.append(tuple(args[j * 8 + i] for i in range(4)))
        harrs.append(tuple(args[j * 8 + 4 + i] for i in range(4)))
    st = Stream([108 if e else 66 for e in ends], bodies, harrs)
    g = list(garbage)
    ctr = [0]

    def fresh():
        v = g[ctr[0] % len(g)]
        ctr[0] += 1
        return v
    st.fresh = fresh
    return st


def _wit_stream(k, variant):
    out = []
    for j in range(k):
        if variant == 0:
            out += [0, 0, 0, 0, 0, 0, 0, 0]
        elif variant == 1:
            out += [5, 0, 0, 0, 3, 0, 0, 0]
        elif variant == 2:
            out += [0, 0, 0, 5, 0, 0, 0, 3]
        else:
            out += [255, 255, 255, 255, 255, 255, 255, 255]
    return out


def build(family, p):
    from txdbus import protocol
    if family in ('bytes', 'hs', 'hsbig', 'reent'):
        return _build_bytes(family, p)
    Rec = _mk_proto(protocol)
    k, ends = p['k'], p['ends']
    sp = _stream_params(k)

    if family == 'frame':
        n = p['n']

        def h(*args):
            sargs, reads, garbage = args[:8 * k], args[8 * k:8 * k + n], args[8 * k + n:]
            for a in sargs + garbage:
                assume(0 <= a <= 255)
            for r in reads:
                assume(r >= 1)
            st = _mk_stream(k, ends, sargs, garbage)
            assume(sum(reads) <= st.start[k])
            pr = Rec()
            pr._authenticated = True
            saved = protocol.struct
            protocol.struct = StructShim()
            try:
                pos = 0
                for r in reads:
                    _feed(pr, StreamView(st, pos, pos + r))
                    pos = pos + r
            finally:
                protocol.struct = saved
            _check_state(pr, st, k, pos, 0)
            reached()
        h.__name__ = 'frame'
        params = sp + [('r%d' % i, int) for i in range(n)] + [('g0', int), ('g1', int)]
        wit = []
        for v in range(4):
            ws = _wit_stream(k, v)
            st = Stream([108 if e else 66 for e in ends], [tuple(ws[j * 8:j * 8 + 4]) for j in range(k)],
                        [tuple(ws[j * 8 + 4:j * 8 + 8]) for j in range(k)])
            total = st.start[k]
            if total < n:
                continue
            base = [1] * n
            base[-1] = total - (n - 1)
            wit.append(tuple(ws + base + [7, 9]))
            if total >= n + 15:
                b2 = [1] * n
                b2[0] = 15
                wit.append(tuple(ws + b2 + [7, 9]))
        return Spec(h, params, witnesses=wit)

    if family == 'step':
        def h(*args):
            sargs = args[:8 * k]
            pbuf, a, b = args[8 * k:8 * k + 3]
            garbage = args[8 * k + 3:]
            for x in sargs + garbage:
                assume(0 <= x <= 255)
            st = _mk_stream(k, ends, sargs, garbage)
            assume(0 <= pbuf < st.total[0])
            assume(a >= 1 and b >= 1)
            assume(pbuf + a + b <= st.start[k])
            saved = protocol.struct
            protocol.struct = StructShim()
            try:
                prs = []
                for mode in (0, 1):
                    pr = Rec()
                    pr._authenticated = True
                    if pbuf > 0:
                        # arbitrary consistent pre-state: an incomplete first message of pbuf bytes already received
                        _feed(pr, StreamView(st, 0, pbuf))
                        if pr.got:
                            raise HarnessError('pre-state: an incomplete message was delivered')
                    if mode == 0:
                        _feed(pr, StreamView(st, pbuf, pbuf + a))
                        _feed(pr, StreamView(st, pbuf + a, pbuf + a + b))
                    else:
                        _feed(pr, StreamView(st, pbuf, pbuf + a + b))
                    prs.append(pr)
            finally:
                protocol.struct = saved
            A, B = prs
            check(len(A.got) == len(B.got), 'two reads deliver a different number of messages than one read')
            for x, y in zip(A.got, B.got):
                check(x.lo == y.lo and x.hi == y.hi, 'two reads deliver different bytes than one read')
            if hasattr(A, '_buffer') and hasattr(A, '_nextMsgLen'):
                check(len(A._buffer) == len(B._buffer), 'buffer differs after two reads vs one read')
                check(A._nextMsgLen == B._nextMsgLen, 'pending length differs after two reads vs one read')
            # and both are right
            _check_state(B, st, k, pbuf + a + b, 0)
            reached()
        h.__name__ = 'step'
        params = sp + [('pbuf', int), ('a', int), ('b', int), ('g0', int), ('g1', int)]
        wit = []
        for v in range(4):
            ws = _wit_stream(k, v)
            st = Stream([108 if e else 66 for e in ends], [tuple(ws[j * 8:j * 8 + 4]) for j in range(k)],
                        [tuple(ws[j * 8 + 4:j * 8 + 8]) for j in range(k)])
            total = st.start[k]
            wit.append(tuple(ws + [0, 1, total - 1, 7, 9]))
            wit.append(tuple(ws + [15, 1, total - 16, 7, 9]))
            if st.total[0] > 17:
                wit.append(tuple(ws + [17, 2, total - 19, 7, 9]))
        return Spec(h, params, witnesses=wit)
    raise KeyError(family)


def _check_state(pr, st, k, pos, first):
    """After `pos` bytes of the stream were delivered: messages handed over and buffer remainder."""
    j = first
    exp = []
    while j < k and st.start[j + 1] <= pos:
        exp.append((st.start[j], st.start[j + 1]))
        j += 1
    check(len(pr.got) == len(exp), 'number of messages handed over differs from the complete messages received')
    for raw, (lo, hi) in zip(pr.got, exp):
        check(isinstance(raw, StreamView), 'message handed over is not stream bytes')
        check(raw.lo == lo and raw.hi == hi, 'message handed over with the wrong byte range')
    rest = pos - st.start[j]
    buf = getattr(pr, '_buffer', None)
    if isinstance(buf, (StreamView, bytes)):
        # bookkeeping is compared where this tree keeps it in the form the proxy understands; what the property fixes
        # is the delivery above
        check(len(buf) == rest, 'buffer does not hold exactly the undelivered remainder')
        if rest > 0:
            check(isinstance(buf, StreamView) and buf.lo == st.start[j], 'buffer does not start at the next message boundary')


def _build_bytes(family, p):
    from txdbus import protocol, message
    from zope.interface import implementer
    from .. import ref_msg
    from ..fakes import FakeTransport
    from .. import shapes

    class Disp(protocol.BasicDBusProtocol):
        def __init__(self):
            self.msgs = []
            self.authed = 0
            self.transport = FakeTransport()
            self._receivedFDs = []

        def connectionAuthenticated(self):
            self.authed += 1

        def methodCallReceived(self, m):
            self.msgs.append(m)

        def methodReturnReceived(self, m):
            self.msgs.append(m)

        def errorReceived(self, m):
            self.msgs.append(m)

        def signalReceived(self, m):
            self.msgs.append(m)

    @implementer(protocol.IDBusAuthenticator)
    class StubAuth:
        def __init__(self, final):
            self.lines = []
            self.ok = False
            self.final = final

        def beginAuthentication(self, proto):
            pass

        def handleAuthMessage(self, line):
            self.lines.append(line)
            if line == self.final:
                self.ok = True

        def authenticationSucceeded(self):
            return self.ok

        def getGUID(self):
            return b'guid'

    def deliver(pr, stream, cuts):
        last = 0
        for c in cuts:
            if c > last:
                pr.dataReceived(stream[last:c])
                last = c
        if last < len(stream):
            pr.dataReceived(stream[last:])

    def check_msgs(pr, exp):
        check(len(pr.msgs) == len(exp), 'number of messages delivered differs from the number sent')
        for m, (mt, serial, body) in zip(pr.msgs, exp):
            check(m._messageType == mt, 'message type differs / order changed')
            check(m.serial == serial, 'serial of a delivered message differs')
            check(shapes.deq(m.body, body), 'body of a delivered message differs')
        check(len(pr._buffer) == 0, 'bytes left in the buffer after complete messages')

    c1 = p.get('c1')
    if family == 'bytes':
        nmsg = p['nmsg']
        cuts = _cut_positions(nmsg)

        def h(s1, v1, s2, y2, s3, c2):
            for s_ in (s1, s2, s3):
                assume(1 <= s_ < 2 ** 32)
            assume(0 <= v1 < 2 ** 32 and 0 <= y2 <= 255)
            assume(0 <= c2 <= len(cuts))
            raws, exp = _real_messages(nmsg, (s1, v1, s2, y2, s3), message, ref_msg)
            stream = b''.join(raws)
            pr = Disp()
            pr._authenticated = True
            cl = sorted(x for x in ([cuts[c1 - 1]] if c1 else []) + ([cuts[c2 - 1]] if c2 else []))
            deliver(pr, stream, cl)
            check_msgs(pr, exp)
            reached()
        h.__name__ = 'bytes'
        params = [('s1', int), ('v1', int), ('s2', int), ('y2', int), ('s3', int), ('c2', int)]
        wit = [(1, 0, 2, 0, 3, 0), (2 ** 32 - 1, 2 ** 32 - 1, 0x0d0a0d0a, 13, 7, len(cuts)), (0x0a0d, 10, 5, 10, 6, 1)]
        return Spec(h, params, witnesses=wit)

    if family == 'reent':
        nmsg, nested = p['nmsg'], p['nested']
        raws0, exp0 = _real_messages(nmsg, (11, 5, 12, 6, 13), message, ref_msg)
        T = sum(len(r) for r in raws0)
        sizes = [T + 1]
        c1 = p['c1']

        def h(code):
            c = decode_choice(code, sizes)
            with notrace():
                run(sorted([c1] + c))
            reached()

        def run(cuts):
            raws, exp = _real_messages(nmsg, (11, 5, 12, 6, 13), message, ref_msg)
            stream = b''.join(raws)
            reads = []
            last = 0
            for cpos in cuts + [len(stream)]:
                if cpos > last:
                    reads.append(stream[last:cpos])
                    last = cpos
            pending = reads[1:]

            class Re(Disp):
                def _got(self, m):
                    self.msgs.append(m)
                    if len(self.msgs) == nested + 1:
                        while pending:
                            self.dataReceived(pending.pop(0))
                methodCallReceived = methodReturnReceived = errorReceived = signalReceived = _got
            pr = Re()
            pr._authenticated = True
            pr.dataReceived(reads[0])
            while pending:
                pr.dataReceived(pending.pop(0))
            check_msgs(pr, exp)
        h.__name__ = 'reent'
        l0, l1 = len(raws0[0]), len(raws0[1])
        wit = [(0,), (T,), (l0 + 3,), (l0 + l1 + 1,), (l0,)]
        return Spec(h, [('code', int)], witnesses=wit)

    variant = p['variant']
    if family == 'hsbig':
        SIZES = [100, 16300, 16384, 16385, 20000, 40000]
        prefix = _hs_prefix(variant)

        def h(code):
            si, ci = decode_choice(code, [len(SIZES), 5])
            with notrace():
                run(SIZES[si], ci)
            reached()

        def run(size, ci):
            message.DBusMessage._nextSerial = 11
            m1 = message.MethodCallMessage('/a/b', 'Big', interface='org.a.I', destination='org.b', signature='ay',
                                           body=[list(range(256)) * (size // 256) + [7] * (size % 256)])
            m2 = message.SignalMessage('/s', 'Sig', 'a.b')
            stream = prefix + m1.rawMessage + m2.rawMessage
            pre = len(prefix)
            cl = [[], [pre], [pre + 17000], [pre - 2, pre + 16385], [1, pre + 16384]][ci]
            pr = Disp()
            auth = StubAuth(HS_LINES[variant][-1])
            pr._dbusAuth = auth
            pr._client = True
            deliver(pr, stream, [c for c in cl if c < len(stream)])
            check(pr.transport.lost == 0, 'connection dropped although every authentication line is short')
            check(len(auth.lines) == 2 and pr.authed == 1, 'handshake did not complete once')
            check(len(pr.msgs) == 2 and pr.msgs[0].serial == 11 and len(pr.msgs[0].body[0]) == size
                  and pr.msgs[1]._messageType == 4, 'messages following the handshake in the same read were not delivered intact')
            check(len(pr._buffer) == 0, 'bytes left in the buffer')
        h.__name__ = 'hsbig'
        return Spec(h, [('code', int)], witnesses=[(encode_choice([a, b], [len(SIZES), 5]),) for a, b in ((0, 0), (4, 0), (5, 2), (3, 3), (2, 4))])

    cuts = _hs_cuts(variant)
    prefix = _hs_prefix(variant)

    c2 = p['c2']
    v1 = p['v1']

    def h(s1, er, au):
        assume(1 <= s1 < 2 ** 32)
        message.DBusMessage._nextSerial = s1
        m1 = message.MethodCallMessage('/a/b', 'Ping', interface='org.a.I', destination='org.b', signature='u',
                                       body=[v1], expectReply=er, autoStart=au)
        message.DBusMessage._nextSerial = 9
        m2 = message.SignalMessage('/s', 'Sig', 'a.b')
        stream = prefix + m1.rawMessage + m2.rawMessage
        pr = Disp()
        auth = StubAuth(HS_LINES[variant][-1])
        pr._dbusAuth = auth
        pr._client = True        # the initial NUL byte of the server side is exercised in C06
        cl = sorted(x for x in ([cuts[c1 - 1]] if c1 else []) + ([c2] if c2 else []))
        deliver(pr, stream, cl)
        check(pr.transport.lost == 0, 'connection dropped during a valid handshake')
        check(len(auth.lines) == 2, 'authentication lines handed over a wrong number of times')
        check(auth.lines[0] == HS_LINES[variant][0] and auth.lines[1] == HS_LINES[variant][1],
              'authentication lines altered or out of order')
        check(pr.authed == 1, 'connectionAuthenticated not called exactly once')
        check_msgs(pr, [(1, s1, [v1]), (4, 9, None)])
        check(bool(pr.msgs[0].expectReply) == er and bool(pr.msgs[0].autoStart) == au, 'flags of the first message differ')
        reached()
    h.__name__ = 'hs'
    params = [('s1', int), ('er', bool), ('au', bool)]
    wit = [(1, True, True), (0x0d0a0d0a, False, False), (0x0a0d, True, False), (0x41420d0a, True, True)]
    return Spec(h, params, witnesses=wit)
