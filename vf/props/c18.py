"""C18 - validators accept exactly the DBus grammar; constructors enforce them."""
import time

from ..engine import Spec, assume, check, reached, HarnessError, notrace, decode_choice, encode_choice
from ..runner import Ob, replay_subprocess

PROPERTY = 'C18'
VALIDATORS = ['validateObjectPath', 'validateInterfaceName', 'validateErrorName', 'validateBusName',
              'validateMemberName']
FUNCS = tuple('txdbus.marshal:' + v for v in VALIDATORS)
CFUNCS = ('txdbus.message:MethodCallMessage.__init__', 'txdbus.message:MethodReturnMessage.__init__',
          'txdbus.message:ErrorMessage.__init__', 'txdbus.message:SignalMessage.__init__',
          'txdbus.message:DBusMessage._marshal', 'txdbus.marshal:marshal_object_path')
EXPLANATION = (
    'lang: each validator is translated from its current source (AST + the live compiled regular '
    'expressions) into regular languages ACCEPT / REJECT(MarshallingError) / ESCAPES(other exception) as z3 '
    'Re terms; z3 decides emptiness of ACCEPT minus GRAMMAR, GRAMMAR minus ACCEPT and ESCAPES over all strings '
    'of length <= 300 on z3\'s full character range; a witness is replayed on the real validator. The '
    'translator is validated on every run (real validator vs. language membership on ~200 strings incl. '
    'solver-chosen members of each language and the 255/256 boundary). ctor: the message constructors run '
    'under CrossHair with each validator replaced by a spy whose verdict is a symbolic boolean; a message '
    'exists iff every name it carries was shown to the right validator and accepted.')
BOUNDS = {'quick': 'lang: strings of length <= 300, characters 0..0x2FFFF; alpha (cross-check): every string of length <= 3 over a 16-character class alphabet; ctor: 4 constructors, name '
                   'arguments None / empty / non-empty, verdict per validator call symbolic',
          'thorough': 'alpha: length <= 4'}
ASSUMPTIONS = [
    'z3 character range stops at 0x2FFFF; code points above behave like any other non-ASCII character in '
    'all five validators (no construct distinguishes them)',
    'the 255 limit is compared in characters: every accepted string is ASCII so characters = bytes',
    'constructs outside the translator list make the validator INCONCLUSIVE (never pass, never violation)',
]
STUBS = ['ctor: txdbus.marshal.validate* replaced by recording spies with a symbolic verdict']

SAMPLES = [
    '', '/', '//', '/a', '/a/', 'a', '/a/b', '/a//b', '/a b', '/é', '/_', '/0', '/a/0', '/-',
    'a.b', 'a', 'a.', '.a', 'a..b', 'a.b.', 'a.0b', '0a.b', 'a.b0', 'a_.b', 'a-b.c', 'a.b-c', 'A.', 'A.B',
    ':1.0', ':1', ':', ':.', ':.a', ':a.', ':a..b', 'a:b.c', 'a.b:c', '::a.b', ':a.b', ':1.a-b', '-a.b', 'a.-b',
    'a b.c', 'a.b c', 'é.b', 'a.é', '٣a.b', 'a.٣', ':٣.a', '²a.b', 'a.²', 'org.freedesktop.DBus',
    'org.freedesktop.DBus.Error.Failed', 'foo', 'Foo_Bar9', '9foo', 'foo.bar', 'foo-bar', '_', '__', 'a' * 255,
    'a' * 256, 'a.' + 'b' * 253, 'a.' + 'b' * 254, ':1.' + '0' * 252, ':1.' + '0' * 253, '/' + 'a' * 300,
    'a\n.b', 'a.b\n', '/a\n', 'foo\n', '\x00', 'a.b\x00', '.', '..', 'a...b', ':a.b.', ':a.b..c', 'a.b.c.d',
    '٠', 'a٠', 'a.b٠', '/a٠',
]


ALPHA = ['a', 'Z', '0', '9', '_', '.', '-', ':', '/', ' ', '\u00e9', '\u0663', '[', '`', '\n', '\x00']


def obligations(tier):
    obs = []
    for ctor in ('call', 'return', 'error', 'signal'):
        obs.append(Ob('ctor:' + ctor, 'ctor', {'ctor': ctor}, timeout=120, path_timeout=20, twin=True,
                      functions=CFUNCS, bounds='names: None/empty/non-empty selectors; verdicts symbolic'))
    obs.append(Ob('ctor:path-real', 'pathhdr', {}, timeout=60, twin=True, functions=CFUNCS,
                  bounds='object path: selector over 12 strings, real validator (no spy)'))
    # cross-check of the translator: every string up to length 3 / 4 over one representative per character class
    nmax = 3 if tier == 'quick' else 4
    for v in VALIDATORS:
        for n in range(0, nmax + 1):
            obs.append(Ob('alpha:%s:len%d' % (v, n), 'alpha', {'validator': v, 'n': n}, timeout=900, path_timeout=60,
                          twin=(n == 2), functions=('txdbus.marshal:' + v,),
                          bounds='every string of length %d over a %d-character class alphabet (symbolic selector)' % (n, len(ALPHA))))
    return obs


def _outcome(fn, s):
    from txdbus.error import MarshallingError
    try:
        fn(s)
        return 'accept'
    except MarshallingError:
        return 'reject'
    except Exception as e:
        return 'escape:' + type(e).__name__


def build(family, p):
    from txdbus import marshal, message, error
    if family == 'lang':
        from ..regtrans import spec_predicates
        name, kind = p['validator'], p['kind']
        pred = spec_predicates()[name]
        fn = getattr(marshal, name)
        n = p.get('n')

        def h(s):
            if n is not None:
                assume(len(s) == n)
            want = pred(s)
            try:
                fn(s)
                got = True
            except error.MarshallingError:
                got = False
            if kind in ('accepts_too_much', 'both'):
                check(not (got and not want), 'validator accepts a string the grammar forbids')
            if kind in ('rejects_too_much', 'both'):
                check(not (want and not got), 'validator rejects a string the grammar allows')
            reached()
        h.__name__ = 'lang'
        return Spec(h, [('s', str)], witnesses=[])
    if family == 'alpha':
        from ..regtrans import spec_predicates
        name, n = p['validator'], p['n']
        pred = spec_predicates()[name]
        fn = getattr(marshal, name)

        def h(code):
            idx = decode_choice(code, [len(ALPHA)] * n) if n else []
            if not n:
                assume(code == 0)
            with notrace():
                s_ = ''.join(ALPHA[i] for i in idx)
                want = pred(s_)
                got = _outcome(fn, s_)
                check(got in ('accept', 'reject'), 'validator raised something other than MarshallingError')
                check((got == 'accept') == want, 'validator disagrees with the DBus grammar on a short string')
                # the verdict on a name must not depend on which other validators saw the same string before
                for other in ('validateBusName', 'validateInterfaceName', 'validateErrorName', 'validateMemberName',
                              'validateObjectPath'):
                    if other != name and hasattr(marshal, other):
                        _outcome(getattr(marshal, other), s_)
                again = _outcome(fn, s_)
                check(again == got, 'the verdict on a name changed after other validators had seen the same string')
            reached()
        h.__name__ = 'alpha'
        wit = [(0,)] if not n else [(encode_choice([(i * 5 + j) % len(ALPHA) for j in range(n)], [len(ALPHA)] * n),) for i in range(4)]
        return Spec(h, [('code', int)], witnesses=wit)
    if family == 'pathhdr':
        POOL = ['/', '/a', '/a/b', '', 'a', '//', '/a/', '/a//b', '/a b', '/-', '/\u00e9',
                '/org/freedesktop/DBus/Local']

        def h(k):
            assume(0 <= k < len(POOL))
            s = POOL[k]
            ok = True
            try:
                marshal.validateObjectPath(s)
            except error.MarshallingError:
                ok = False
            for mk in (lambda: message.MethodCallMessage(s, 'M'),
                       lambda: message.SignalMessage(s, 'M', 'a.b')):
                built = True
                try:
                    message.DBusMessage._nextSerial = 1
                    mk()
                except error.MarshallingError:
                    built = False
                check(not (built and not ok), 'a message was built with an invalid object path')
                if ok and s != '/org/freedesktop/DBus/Local':
                    check(built, 'a message with a valid path was refused')
            reached()
        h.__name__ = 'pathhdr'
        return Spec(h, [('k', int)], witnesses=[(i,) for i in range(len(POOL))])
    if family == 'ctor':
        return _build_ctor(p['ctor'])
    raise KeyError(family)


NAMEVALS = [None, '', 'x.y']
PATHVALS = ['/p', '', 'x/', '/org/freedesktop/DBus/Local']


def _build_ctor(kind):
    from txdbus import marshal, message, error

    def h(pi, mi, ii, di, ei, vp, vm, vi, vd, ve):
        for sel in (mi, ii, di, ei):
            assume(0 <= sel < 3)
        assume(0 <= pi < 3)
        path = PATHVALS[pi]
        member, iface, dest, ename = NAMEVALS[mi], NAMEVALS[ii], NAMEVALS[di], NAMEVALS[ei]
        calls = []
        saved = {}

        def spy(label, verdict):
            def f(n):
                calls.append((label, n))
                if not verdict:
                    raise error.MarshallingError('spy rejects')
            return f
        names = {'validateMemberName': ('member', vm), 'validateInterfaceName': ('iface', vi),
                 'validateBusName': ('bus', vd), 'validateErrorName': ('error', ve),
                 'validateObjectPath': ('path', vp)}
        for k, (lab, v) in names.items():
            saved[k] = getattr(marshal, k)
            setattr(marshal, k, spy(lab, v))
        built = None
        try:
            message.DBusMessage._nextSerial = 1
            try:
                if kind == 'call':
                    assume(member is not None)
                    built = message.MethodCallMessage(path, member, interface=iface, destination=dest)
                elif kind == 'return':
                    built = message.MethodReturnMessage(5, destination=dest)
                elif kind == 'error':
                    assume(ename is not None)
                    built = message.ErrorMessage(ename, 5, destination=dest)
                else:
                    assume(member is not None and iface is not None)
                    built = message.SignalMessage(path, member, iface, destination=dest)
            except error.MarshallingError:
                built = None
        finally:
            for k, f in saved.items():
                setattr(marshal, k, f)
        if built is None:
            # refusing is always safe; refusing when everything was acceptable is checked below
            pass
        # names the message carries (read back from the message itself), each with the
        # validator label that must have accepted it
        if built is not None:
            carried = []
            if kind in ('call', 'signal'):
                carried.append(('path', built.path, vp))
                carried.append(('member', built.member, vm))
            if getattr(built, 'interface', None) is not None:
                carried.append(('iface', built.interface, vi))
            if kind == 'error':
                carried.append(('error', built.error_name, ve))
            if getattr(built, 'destination', None) is not None:
                carried.append(('bus', built.destination, vd))
            hdr = dict((c, v) for c, v in built.headers)
            for code, attr in ((1, 'path'), (2, 'interface'), (3, 'member'), (4, 'error_name'),
                               (6, 'destination')):
                if code in hdr:
                    check(any(v == hdr[code] for _, v, _ in carried),
                          'header field carries a name the message object does not declare')
            for lab, val, verdict in carried:
                shown = [l2 for (l2, v2) in calls if v2 == val and
                         (l2 == lab or (lab == 'error' and l2 == 'iface'))]
                check(len(shown) > 0,
                      'message built although a carried name was never shown to its validator')
                if lab == 'error' and 'error' not in shown:
                    verdict = vi
                check(verdict, 'message built although a validator rejected one of its names')
        else:
            wanted = [vm] if kind in ('call', 'signal') else []
            if kind in ('call', 'signal'):
                wanted.append(vp)
            # all verdicts True and all names non-empty => must be constructible
            if vp and vm and vi and vd and ve and pi == 0:
                check(False, 'constructor refused although every validator accepted')
        reached()
    h.__name__ = 'ctor_' + kind
    params = [('pi', int), ('mi', int), ('ii', int), ('di', int), ('ei', int), ('vp', bool), ('vm', bool),
              ('vi', bool), ('vd', bool), ('ve', bool)]
    return Spec(h, params, witnesses=[(0, 2, 2, 2, 2, True, True, True, True, True),
                                      (0, 2, 2, 0, 2, True, True, True, True, True)])


# --------------------------------------------------------------------------- direct z3 part

def direct(tier):
    import multiprocessing as mp
    ctx = mp.get_context('fork')
    with ctx.Pool(len(VALIDATORS)) as pool:
        parts = pool.map(_direct_one, VALIDATORS)
    out = []
    for p in parts:
        out.extend(p)
    return out


def _direct_one(target):
    import z3
    from txdbus import marshal
    from .. import regtrans as rt
    out = []
    spec = rt.spec_languages()
    preds = rt.spec_predicates()
    known = {}
    for name in VALIDATORS:
        fn = getattr(marshal, name)
        base = {'family': 'lang', 'functions': ['txdbus.marshal:' + name], 'paths': 0,
                'bounds': 'all strings, length <= 300, chars 0..0x2FFFF'}
        tr = rt.Translator(marshal, known)
        try:
            acc, rej, esc = tr.translate(fn)
        except rt.Untranslatable as e:
            if name == target:
                for kind in ('accepts_too_much', 'rejects_too_much', 'escapes'):
                    out.append(dict(base, id='lang:%s:%s' % (name, kind), status='UNKNOWN',
                                    message='untranslatable construct: %s' % e))
            continue
        known[name] = (acc, rej, esc)
        if name != target:
            continue
        # ---- translator validation
        probes = list(SAMPLES)
        for lang in (acc, rej, inter_safe(rt, acc, spec[name]), inter_safe(rt, rej, rt.comp(spec[name]))):
            st, w = rt.nonempty(lang, 40, 20000)
            if st == 'sat':
                probes.append(rt.z3_unescape(w))
        bad = None
        for s in probes:
            real = _outcome(fn, s)
            if any(ord(c) > rt.MAXCHAR or 0xD800 <= ord(c) <= 0xDFFF for c in s):
                continue
            sv = z3.StringVal(s)
            member = {k: z3.is_true(z3.simplify(z3.InRe(sv, r)))
                      for k, r in (('accept', acc), ('reject', rej), ('escape', esc))}
            model = [k for k, v in member.items() if v]
            if model != [real.split(':')[0]]:
                bad = 'translator disagrees with %s on %r: real=%s model=%s' % (name, s, real, model)
                break
            if preds[name](s) != z3.is_true(z3.simplify(z3.InRe(sv, spec[name]))):
                bad = 'grammar regex and grammar predicate disagree on %r for %s' % (s, name)
                break
        if bad:
            for kind in ('accepts_too_much', 'rejects_too_much', 'escapes'):
                out.append(dict(base, id='lang:%s:%s' % (name, kind), status='HARNESS_ERROR', message=bad))
            continue
        queries = [('accepts_too_much', rt.inter(acc, rt.comp(spec[name]))),
                   ('rejects_too_much', rt.inter(spec[name], rt.comp(acc))),
                   ('escapes', esc)]
        for kind, lang in queries:
            t = time.time()
            st, w = rt.nonempty(lang, 300, 120000)
            e = dict(base, id='lang:%s:%s' % (name, kind), queries=1, solver_s=round(time.time() - t, 3),
                     params={'validator': name, 'kind': kind}, probes=len(probes),
                     constructs=sorted(tr.constructs))
            if st == 'unsat':
                e.update(status='CONFIRMED', nontrivial=True,
                         message='language empty (unsat); translator validated on %d strings' % len(probes))
            elif st == 'unknown':
                e.update(status='UNKNOWN', message='solver: %s' % w)
            else:
                s = rt.z3_unescape(w)
                e['cex'] = [s]
                if kind == 'escapes':
                    real = _outcome(fn, s)
                    ok = real.startswith('escape')
                    e['replay_text'] = 'validator raised %s on %r' % (real, s)
                else:
                    oc, text = replay_subprocess(PROPERTY, 'lang', e['params'], (s,))
                    ok = oc in ('violation', 'error')
                    e['replay_text'] = '%r: %s' % (s, text[:300])
                e.update(status='REFUTED' if ok else 'NOT_REPRODUCED',
                         message='witness %r' % (s,), replay='violation' if ok else 'ok')
            out.append(e)
    return out


def inter_safe(rt, a, b):
    return rt.inter(a, b)
