"""C06 - the bus authenticates a peer only after a mechanism accepted it."""
import binascii

from ..engine import Spec, assume, check, reached, HarnessError, notrace, mkbytes, concrete, decode_choice, encode_choice
from ..runner import Ob
from ..fakes import FakeTransport

PROPERTY = 'C06'
FUNCS = ('txdbus.authentication:BusAuthenticator.handleAuthMessage', 'txdbus.authentication:BusAuthenticator.stepAuth',
         'txdbus.authentication:BusAuthenticator.reject', 'txdbus.authentication:BusAuthenticator._auth_AUTH',
         'txdbus.authentication:BusAuthenticator._auth_BEGIN', 'txdbus.authentication:BusAuthenticator._auth_DATA',
         'txdbus.authentication:BusAuthenticator._auth_CANCEL', 'txdbus.authentication:BusAuthenticator._auth_ERROR',
         'txdbus.authentication:BusAuthenticator._auth_NEGOTIATE_UNIX_FD',
         'txdbus.authentication:BusCookieAuthenticator._step_two', 'txdbus.authentication:BusCookieAuthenticator.step',
         'txdbus.authentication:BusExternalAuthenticator.step', 'txdbus.authentication:BusAnonymousAuthenticator.step',
         'txdbus.protocol:BasicDBusProtocol.dataReceived')
EXPLANATION = (
    'step: ONE call of the real BusAuthenticator.handleAuthMessage from an ARBITRARY state (3 states x reject '
    'counter 0..5 x mechanism in progress or not, constrained only by the representation invariant) with a symbolic '
    'choice among 26 line shapes and a symbolic scripted mechanism outcome, compared with a reference model of the '
    'DBus server authentication state machine (reply class, next state, counter, cancel, authenticated only via BEGIN '
    'in WaitingForBegin, close exactly on BEGIN out of turn and on the 6th rejection): an inductive step that covers '
    'line sequences of any length. run: k lines from the real initial state through the real dataReceived (first '
    'byte, line splitting across reads, length limit symbolic). mech: the three real mechanisms (cookie hash with an '
    'uninterpreted digest). e2e: real client authenticator against the real bus authenticator.')
BOUNDS = {'quick': 'step: all (state, counter, mechanism, line shape, outcome) combinations; run: k <= 3 lines from 8 shapes; '
                   'mech: cookie response tokens symbolic (4 bytes each)',
          'thorough': 'run: k <= 4'}
ASSUMPTIONS = ['mechanisms in step/run are scripted stubs (OK / CONTINUE / REJECTED chosen by the solver); the real ones are checked in mech',
               'malformed hexadecimal data may be answered REJECTED or ERROR (the specification allows either)',
               'real pwd / filesystem / os.urandom / SHA-1 are stubbed (sha1 = injective pairing of its input)']
STUBS = ['ScriptMech', 'FakeProtocol.sendAuthMessage recorder', 'FakeTransport', 'hashlib.sha1 / os.urandom / cookie file operations in mech']

LINES = [
    (b'AUTH', ('AUTH', None, 'none')), (b'AUTH SCRIPT', ('AUTH', True, 'none')),
    (b'AUTH SCRIPT 6162', ('AUTH', True, 'hex')), (b'AUTH UNKNOWN', ('AUTH', False, 'none')),
    (b'AUTH UNKNOWN 6162', ('AUTH', False, 'hex')), (b'AUTH SCRIPT zz', ('AUTH', True, 'bad')),
    (b'AUTH SCRIPT 616', ('AUTH', True, 'bad')), (b'AUTH  SCRIPT  6162', ('AUTH', True, 'hex')),
    (b'AUTH script', ('AUTH', False, 'none')),
    (b'DATA', ('DATA', None, 'none')), (b'DATA 6162', ('DATA', None, 'hex')), (b'DATA zz', ('DATA', None, 'bad')),
    (b'DATA 616', ('DATA', None, 'bad')), (b'DATA  6162 ', ('DATA', None, 'hex')),
    (b'BEGIN', ('BEGIN',)), (b'BEGIN x', ('BEGIN',)), (b'CANCEL', ('CANCEL',)), (b'ERROR', ('ERROR',)),
    (b'ERROR some text', ('ERROR',)), (b'NEGOTIATE_UNIX_FD', ('OTHER',)), (b'FOO', ('OTHER',)), (b'', ('OTHER',)),
    (b'auth SCRIPT', ('OTHER',)), (b'BEGINX', ('OTHER',)), (b'\xff\xfe', ('OTHER',)), (b' AUTH SCRIPT', ('OTHER',)),
]
STATES = ['WaitingForAuth', 'WaitingForData', 'WaitingForBegin']
OUTCOMES = ['OK', 'CONTINUE', 'REJECTED']
GUID = b'0123456789abcdef'


def ref_step(state, rejects, line, outcome):
    """Reference server state machine.
    Returns list of acceptable results: (reply_class, next_state, rejects, closed, authed, stepped, cancelled)"""
    kind = line[0]

    def rejected(cancel):
        if rejects + 1 > 5:
            return ('CLOSE', None, rejects + 1, True, False, False, cancel)
        return ('REJECTED', 'WaitingForAuth', rejects + 1, False, False, False, cancel)

    def error():
        return ('ERROR', state, rejects, False, False, False, False)

    has_mech = state != 'WaitingForAuth'

    def step(datakind):
        if datakind == 'bad':
            # malformed hex: REJECTED (mechanism cancelled) or ERROR (state kept) are both acceptable
            r = rejected(True)
            return [r, error()]
        if outcome == 'OK':
            return [('OK', 'WaitingForBegin', rejects, False, False, True, False)]
        if outcome == 'CONTINUE':
            return [('DATA', 'WaitingForData', rejects, False, False, True, False)]
        r = rejected(True)
        return [r[:5] + (True,) + r[6:]]
    if kind == 'BEGIN':
        if state == 'WaitingForBegin':
            return [(None, state, rejects, False, True, False, False)]
        return [('CLOSE', None, rejects, True, False, False, False)]
    if kind == 'AUTH':
        if state != 'WaitingForAuth':
            return [error()]
        if line[1] is None or line[1] is False:
            return [rejected(False)]
        return step(line[2])
    if kind == 'DATA':
        if state != 'WaitingForData':
            return [error()]
        return step(line[2])
    if kind == 'CANCEL':
        if state in ('WaitingForData', 'WaitingForBegin'):
            return [rejected(True)]
        return [error()]
    if kind == 'ERROR':
        return [rejected(has_mech)]
    return [error()]


def classify(msgs, reject_msg):
    if not msgs:
        return None
    if len(msgs) > 1:
        return 'MANY'
    m = msgs[0]
    if m == reject_msg:
        return 'REJECTED'
    if m[:5] == b'ERROR':
        return 'ERROR'
    if m[:5] == b'DATA ':
        return 'DATA'
    if m == b'OK ' + GUID:
        return 'OK'
    return 'JUNK'


def classify_all(msgs, reject_msg):
    return [classify([m], reject_msg) for m in msgs]


def obligations(tier):
    obs = []
    for si, st in enumerate(STATES):
        for li in range(len(LINES)):
            obs.append(Ob('step:%s:line%02d' % (st, li), 'step', {'state': si, 'line': li}, timeout=120, path_timeout=20,
                          twin=(li % 4 == 0), functions=FUNCS[:9],
                          bounds='reject counter 0..5 and mechanism outcome symbolic'))
    kmax = 3 if tier == 'quick' else 4
    for k in range(1, kmax + 1):
        for nul in (True, False):
            for split in (0, 1, 2):
                if not nul and (k > 1 or split):
                    continue
                if k >= 3 and split == 1:
                    continue
                firsts = [None] if k <= 2 else list(range(len(RUN_LINES)))
                for first in firsts:
                    obs.append(Ob('run:k%d:%s:split%d:first%s' % (k, 'nul' if nul else 'nonul', split, first), 'run',
                                  {'k': k, 'nul': nul, 'split': split, 'first': first},
                                  timeout=600 if k < 4 else 2400, path_timeout=30,
                                  twin=(first in (None, 0)), functions=FUNCS[:9] + FUNCS[13:],
                                  bounds='%d lines, each a symbolic choice among %d shapes; outcomes symbolic'
                                  % (k, len(RUN_LINES))))
    obs.append(Ob('run:maxlen', 'maxlen', {}, timeout=120, twin=True, functions=FUNCS[13:],
                  bounds='line length limit and line lengths symbolic (small)'))
    for m in ('EXTERNAL', 'ANONYMOUS'):
        obs.append(Ob('mech:' + m, 'mech', {'mech': m}, timeout=300, path_timeout=30, twin=True, functions=FUNCS[9:13],
                      bounds='credentials present/absent, step count symbolic'))
    for shape in range(9):
        obs.append(Ob('mech:COOKIE:shape%d' % shape, 'mech', {'mech': 'COOKIE', 'shape': shape}, timeout=300, path_timeout=30,
                      twin=True, functions=FUNCS[9:13], bounds='response tokens symbolic (digits), str/bytes, right/wrong hash'))
    for m in ('EXTERNAL', 'ANONYMOUS', 'DBUS_COOKIE_SHA1'):
        obs.append(Ob('e2e:' + m, 'e2e', {'mech': m}, timeout=120, path_timeout=30, twin=True,
                      functions=FUNCS[:13], bounds='concrete handshake; reject prefix count symbolic 0..4'))
    return obs


class FakeProto:
    def __init__(self):
        self.sent = []
        self._unix_creds = None

    def sendAuthMessage(self, m):
        self.sent.append(m)


def _script_mech(authentication, log, outcomes):
    from zope.interface import implementer

    @implementer(authentication.IBusAuthenticationMechanism)
    class ScriptMech:
        def getMechanismName(self):
            return 'SCRIPT'

        def init(self, protocol):
            log.append(('init',))

        def step(self, arg):
            log.append(('step', arg))
            i = sum(1 for e in log if e[0] == 'step') - 1
            o = outcomes[i % len(outcomes)]
            return (OUTCOMES[o], b'chal' if OUTCOMES[o] == 'CONTINUE' else None)

        def getUserName(self):
            return 'scriptuser'

        def cancel(self):
            log.append(('cancel',))
    return ScriptMech


def _state_name(a):
    """Name of the authenticator's protocol state if this tree keeps it in a readable form, else None."""
    s = getattr(a, 'state', None)
    for cand in (s, getattr(s, 'name', None), getattr(s, 'value', None)):
        if isinstance(cand, str) and cand in STATES:
            return cand
    return None


def build(family, p):
    from txdbus import authentication, error, protocol
    if family == 'step':
        si, li = p['state'], p['line']
        state = STATES[si]
        raw, shape = LINES[li]

        def h(code):
            rejects, outcome = decode_choice(code, [6, 3])
            log = []
            with notrace():
                # the pre-state (protocol state, number of rejections so far) is reached by talking to the
                # authenticator: `rejects` refused AUTH lines, then an AUTH that the scripted mechanism answers with
                # a challenge (-> waiting for data) or accepts (-> waiting for BEGIN)
                pre = {'WaitingForAuth': [], 'WaitingForData': [1], 'WaitingForBegin': [0]}[state]
                script = pre + [outcome]
                Mech = _script_mech(authentication, log, script)
                a = authentication.BusAuthenticator(GUID)
                a.mechanisms = {b'SCRIPT': Mech}
                a.reject_msg = b'REJECTED SCRIPT'
                pr = FakeProto()
                a.beginAuthentication(pr)
                for _ in range(rejects):
                    a.handleAuthMessage(b'AUTH UNKNOWN')
                if classify_all(pr.sent, a.reject_msg) != ['REJECTED'] * rejects:
                    raise HarnessError('pre-state: refused AUTH lines were not answered REJECTED')
                if pre:
                    a.handleAuthMessage(b'AUTH SCRIPT')
                    if classify(pr.sent[-1:], a.reject_msg) != ('DATA' if pre == [1] else 'OK'):
                        raise HarnessError('pre-state: the scripted mechanism did not lead to the wanted state')
                if _state_name(a) not in (None, state):
                    raise HarnessError('pre-state: the authenticator reports another state')
                del pr.sent[:]
                nlog0 = len(log)
            closed = False
            try:
                a.handleAuthMessage(raw)
            except error.DBusAuthenticationFailed:
                closed = True
            got_reply = classify(pr.sent, a.reject_msg)
            stepped = any(e[0] == 'step' for e in log[nlog0:])
            cancelled = any(e[0] == 'cancel' for e in log[nlog0:])
            # where this tree keeps its bookkeeping readable it is compared too; otherwise only the conversation is
            now_state = _state_name(a)
            now_rej = getattr(a, 'reject_count', None)
            has_mech_attr = hasattr(a, 'current_mech')
            ok = False
            for (reply, nstate, nrej, nclosed, authed, nstep, ncancel) in ref_step(state, rejects, shape, OUTCOMES[outcome]):
                if nclosed:
                    if closed and not a.authenticationSucceeded() and got_reply is None:
                        ok = True
                    continue
                if closed:
                    continue
                if got_reply != reply:
                    continue
                if now_state is not None and now_state != nstate:
                    continue
                if isinstance(now_rej, int) and now_rej != nrej:
                    continue
                if bool(a.authenticationSucceeded()) != authed:
                    continue
                if stepped != nstep:
                    continue
                if ncancel and not cancelled:
                    continue
                if has_mech_attr and nstate == 'WaitingForAuth' and a.current_mech is not None:
                    continue
                if has_mech_attr and nstate in ('WaitingForData', 'WaitingForBegin') and not authed and a.current_mech is None:
                    continue
                ok = True
            check(ok, 'bus authenticator step differs from the DBus authentication state machine')
            if a.authenticationSucceeded():
                check(state == 'WaitingForBegin' and shape[0] == 'BEGIN', 'authenticated without OK + BEGIN')
            reached()
        h.__name__ = 'step'
        return Spec(h, [('code', int)],
                    witnesses=[(encode_choice(w, [6, 3]),) for w in ([0, 0], [5, 2], [4, 2], [0, 1], [5, 0])])

    if family == 'run':
        return _build_run(p)
    if family == 'maxlen':
        return _build_maxlen()
    if family == 'mech':
        return _build_mech(p['mech'], p.get('shape'))
    if family == 'e2e':
        return _build_e2e(p['mech'])
    raise KeyError(family)


RUN_LINES = [1, 2, 3, 10, 11, 14, 16, 20]     # indexes into LINES


def _server_proto(authentication, protocol, log, outcomes, guid=GUID):
    Mech = _script_mech(authentication, log, outcomes)

    class Auth(authentication.BusAuthenticator):
        def __init__(self, server_guid):
            authentication.BusAuthenticator.__init__(self, server_guid)
            self.mechanisms = {b'SCRIPT': Mech}
            self.reject_msg = b'REJECTED SCRIPT'

    class Fac:
        class bus:
            uuid = guid

    class Srv(protocol.BasicDBusProtocol):
        _client = False
        authenticator = Auth

        def __init__(self):
            self.authed = 0
            self.factory = Fac
            self.transport = FakeTransport()

        def connectionAuthenticated(self):
            self.authed += 1
    return Srv


def _build_run(p):
    from txdbus import authentication, error, protocol
    k, nul, split = p['k'], p['nul'], p['split']

    first = p.get('first')
    nfree = k if first is None else k - 1
    sizes = [len(RUN_LINES)] * nfree + [3] * k

    def h(code):
        sel = decode_choice(code, sizes)      # one path per (line sequence, outcome script); the run is concrete
        sels = ([first] if first is not None else []) + sel[:nfree]
        outs = sel[nfree:]
        with notrace():
            run(sels, outs)
        reached()

    def run(sels, outs):
        log = []
        saved = protocol._is_linux
        protocol._is_linux = False
        try:
            with notrace():
                Srv = _server_proto(authentication, protocol, log, list(outs))
                pr = Srv()
                pr.connectionMade()
            lines = [LINES[RUN_LINES[s]] for s in sels]
            stream = (b'\0' if nul else b'A') + b''.join(l[0] + b'\r\n' for l in lines)
            if split == 0:
                pr.dataReceived(stream)
            elif split == 1:
                pr.dataReceived(stream[:1])
                pr.dataReceived(stream[1:])
            else:
                cut = len(stream) - 1
                pr.dataReceived(stream[:3])
                pr.dataReceived(stream[3:cut])
                pr.dataReceived(stream[cut:])
        finally:
            protocol._is_linux = saved
        tr = pr.transport
        if not nul:
            check(tr.lost >= 1 and pr.authed == 0 and tr.written == [], 'missing initial NUL byte must close the connection')
            return
        # replay the reference model over the lines
        state, rej = 'WaitingForAuth', 0
        nstep = 0
        exp_replies = []
        closed = authed = False
        for raw, shape in lines:
            if closed or authed:
                break
            oc = OUTCOMES[outs[nstep % len(outs)]]
            alts = ref_step(state, rej, shape, oc)
            # malformed hex has two acceptable answers: follow the one the implementation took
            pick = alts[0]
            if len(alts) > 1:
                sent = [w for w in tr.written if w != b'\r\n']
                idx = len(exp_replies)
                if idx < len(sent) and sent[idx][:5] == b'ERROR':
                    pick = alts[1]
            reply, nstate, nrej, ncl, nauth, stp, _ = pick
            if stp:
                nstep += 1
            if ncl:
                closed = True
                break
            if reply is not None:
                exp_replies.append(reply)
            state, rej, authed = nstate, nrej, nauth
        sent = [w for w in tr.written if w != b'\r\n']
        got = [classify([m], b'REJECTED SCRIPT') for m in sent]
        check(got == exp_replies, 'replies differ from the authentication state machine')
        check((tr.lost >= 1) == closed, 'connection closed iff the state machine says so')
        check((pr.authed == 1) == authed and pr.authed <= 1, 'authenticated iff OK was followed by BEGIN')
    h.__name__ = 'run'
    wit = [[1] * k + [0] * k, [1] + [5] * (k - 1) + [0] * k, [2] * k + [2] * k, [0, 5, 0, 5][:k] + [0] * k]
    wit = [(encode_choice((w[1:] if first is not None else w)[:nfree] + w[k:], sizes),) for w in wit]
    return Spec(h, [('code', int)], witnesses=wit)


def _build_maxlen():
    from txdbus import authentication, protocol

    def h(L):
        assume(1 <= L <= 40)
        for n1 in (0, 3, 4, 5, 9, 30):
            for n2 in (0, 4, 5, 6, 31):
                log = []
                saved = protocol._is_linux
                protocol._is_linux = False
                try:
                    with notrace():
                        Srv = _server_proto(authentication, protocol, log, [0])
                        pr = Srv()
                        pr.connectionMade()
                    pr.MAX_AUTH_LENGTH = L
                    # first a complete line of n1 bytes, then n2 bytes without a terminator
                    pr.dataReceived(b'\0' + b'X' * n1 + b'\r\n')
                    lost1 = pr.transport.lost
                    if not lost1:
                        pr.dataReceived(b'Y' * n2)
                finally:
                    protocol._is_linux = saved
                check((lost1 >= 1) == (n1 > L), 'a complete line longer than the limit must close the connection, a shorter one not')
                if n1 <= L:
                    check((pr.transport.lost >= 1) == (n2 > L),
                          'an unterminated line longer than the limit must close the connection')
        check(protocol.BasicDBusProtocol.MAX_AUTH_LENGTH == 16384, 'authentication line limit is not 16 KiB')
        reached()
    h.__name__ = 'maxlen'
    return Spec(h, [('L', int)], witnesses=[(5,), (1,), (4,), (40,)])


def _build_mech(name, fixed_shape=None):
    from txdbus import authentication
    if name == 'EXTERNAL':
        def h(have, uid, nsteps):
            assume(0 <= uid < 2 ** 31 and 1 <= nsteps <= 3)
            m = authentication.BusExternalAuthenticator()
            pr = FakeProto()
            pr._unix_creds = (10, uid, 20) if have else None
            m.init(pr)
            res = [m.step(None if i == 0 else '') for i in range(nsteps)]
            if not have:
                check(all(r[0] not in ('OK', 'CONTINUE') for r in res), 'EXTERNAL accepted without peer credentials')
            else:
                check(res[0][0] in ('OK', 'CONTINUE'), 'EXTERNAL with credentials not accepted')
                if nsteps >= 2:
                    check(res[1][0] == 'OK' or res[0][0] == 'OK', 'EXTERNAL with credentials not accepted after the empty DATA')
            reached()
        h.__name__ = 'mech_external'
        return Spec(h, [('have', bool), ('uid', int), ('nsteps', int)], witnesses=[(True, 0, 2), (False, 5, 3)])
    if name == 'ANONYMOUS':
        def h(k):
            assume(0 <= k < 3)
            m = authentication.BusAnonymousAuthenticator()
            m.init(FakeProto())
            r = m.step([None, '', 'txdbus'][k])
            check(r[0] == 'OK' and m.getUserName() == 'anonymous', 'ANONYMOUS not accepted')
            reached()
        h.__name__ = 'mech_anonymous'
        return Spec(h, [('k', int)], witnesses=[(0,), (1,), (2,)])

    # DBUS_COOKIE_SHA1, second step: accepted iff the response hash is the hash of
    # challenge:client_challenge:cookie
    import hashlib

    class FakeSha:
        """Injective 'digest' so that equal digests mean equal inputs (uninterpreted sha1)."""

        def __init__(self, data=b''):
            self.data = bytes(data) if not hasattr(data, '__ch_realize__') else data

        def digest(self):
            return b'<' + self.data + b'>'

    SHAPES = ['two', 'one', 'three', 'empty', 'blank', 'none', 'prefix', 'extended', 'flip']

    def h(c0, r0, as_str, right, shape, cut):
        for b in (c0, r0):
            assume(48 <= b <= 57)      # tokens of ASCII digits (no whitespace, hex-safe)
        assume(shape == fixed_shape)
        kind = SHAPES[fixed_shape]
        assume(0 <= cut < 28)           # the hash token has 28 characters here
        if kind not in ('prefix', 'flip'):
            assume(cut == 0)
        cut = decode_choice(cut, [28])[0]
        if kind in ('prefix', 'flip', 'extended'):
            assume(c0 == 48)            # concrete challenge: the variation is in the hash token
            c0 = 48
            if kind == 'prefix':
                assume(r0 == 48)
        with notrace():
            m = authentication.BusCookieAuthenticator()
            m.challenge_str = b'CH'
            m.cookie = b'COOKIE'
            m.cookieId = 7
            deleted = []
            m._delete_cookie = lambda: deleted.append(1)
        saved = authentication.hashlib
        authentication.hashlib = type('H', (), {'sha1': staticmethod(lambda d=b'': FakeSha(d))})
        try:
            client_chal = bytes([c0, 55])
            good = binascii.hexlify(b'<' + b'CH:' + client_chal + b':COOKIE>')
            resp_hash = good if right else bytes([r0, 49])
            if kind == 'prefix':        # a proper prefix of the right hash (an empty one leaves a single token)
                response = client_chal + b' ' + good[:cut]
            elif kind == 'extended':    # the right hash followed by one more character
                response = client_chal + b' ' + good + bytes([r0])
            elif kind == 'flip':        # the right hash with one character changed
                pos = [0, 1, 13, 14, 26, 27][cut % 6]
                assume(cut < 6 and good[pos] != r0)
                response = client_chal + b' ' + good[:pos] + bytes([r0]) + good[pos + 1:]
            elif kind == 'two':
                response = client_chal + b' ' + resp_hash
            elif kind == 'one':
                response = resp_hash
            elif kind == 'three':
                response = client_chal + b' ' + resp_hash + b' x'
            elif kind == 'empty':
                response = b''
            elif kind == 'blank':
                response = b'  '
            else:
                response = None
            if as_str and response is not None:
                response = response.decode('ascii')       # what BusAuthenticator.stepAuth hands over
            m.step_num = 1
            res = m.step(response)
        finally:
            authentication.hashlib = saved
        if right and kind == 'two':
            check(res[0] == 'OK', 'the right cookie response is rejected')
        else:
            check(res[0] != 'OK', 'a response that is not "<challenge> <right hash>" is accepted')
        if response is not None:
            check(len(deleted) >= 1, 'cookie not deleted after the attempt')
        reached()
    h.__name__ = 'mech_cookie'
    fs = fixed_shape
    wit = {'prefix': [(48, 48, False, True, fs, 27), (48, 48, True, True, fs, 8), (48, 48, False, False, fs, 1),
                      (48, 48, True, False, fs, 0)],
           'flip': [(48, 50, False, True, fs, 5), (48, 57, True, True, fs, 2), (48, 49, True, False, fs, 0)],
           'extended': [(48, 50, False, True, fs, 0), (48, 57, True, False, fs, 0)]}.get(
        SHAPES[fs], [(48, 50, False, True, fs, 0), (48, 50, True, True, fs, 0), (57, 48, True, False, fs, 0),
                     (48, 50, False, False, fs, 0)])
    return Spec(h, [('c0', int), ('r0', int), ('as_str', bool), ('right', bool), ('shape', int), ('cut', int)],
                witnesses=wit)


def _build_e2e(mech):
    from txdbus import authentication, protocol, error
    import tempfile, os, shutil

    def h(nrej):
        assume(0 <= nrej <= 4)
        nrej = concrete(nrej)          # fork: 5 concrete runs
        with notrace():
            return body(nrej)

    def body(nrej):
        tmp = tempfile.mkdtemp(prefix='verif-c06-')
        saved = protocol._is_linux
        protocol._is_linux = False
        saved_getpass = authentication.getpass
        try:
            import pwd
            me = pwd.getpwuid(os.geteuid())
            authentication.getpass = type('G', (), {'getuser': staticmethod(lambda: me.pw_name)})

            class CliAuth(authentication.ClientAuthenticator):
                preference = [mech.encode()]

            class Cli(protocol.BasicDBusProtocol):
                _client = True
                authenticator = CliAuth

                def __init__(self):
                    self.authed = 0
                    self.transport = FakeTransport()

                def connectionAuthenticated(self):
                    self.authed += 1

            class Fac:
                class bus:
                    uuid = binascii.hexlify(GUID)

            class Srv(protocol.BasicDBusProtocol):
                _client = False
                authenticator = authentication.BusAuthenticator

                def __init__(self):
                    self.authed = 0
                    self.factory = Fac
                    self.transport = FakeTransport()

                def connectionAuthenticated(self):
                    self.authed += 1
            srv, cli = Srv(), Cli()
            srv.connectionMade()
            srv._unix_creds = (1, os.geteuid(), os.getegid())
            if mech == 'DBUS_COOKIE_SHA1':
                kd = os.path.join(tmp, 'keyrings')
                os.mkdir(kd, 0o700)
                orig_one = authentication.BusCookieAuthenticator._step_one
                authentication.BusCookieAuthenticator._step_one = lambda self, u, keyring_dir=None: orig_one(self, u, kd)
            cli.connectionMade()
            if mech == 'DBUS_COOKIE_SHA1':
                cli._dbusAuth.cookie_dir = kd
            # some rejected attempts first (must not prevent a later success)
            pre = b'\0'
            for i in range(4):
                if i < nrej:
                    pre = pre + b'AUTH NOPE\r\n'
            srv.dataReceived(pre)
            srv.transport.clear()
            first = True
            for _ in range(12):
                c2s = b''.join(bytes(w) for w in cli.transport.written)
                cli.transport.clear()
                if first:
                    c2s = c2s[1:] if c2s[:1] == b'\0' else c2s
                    first = False
                if c2s:
                    srv.dataReceived(c2s)
                s2c = b''.join(bytes(w) for w in srv.transport.written)
                srv.transport.clear()
                if s2c:
                    cli.dataReceived(s2c)
                if not c2s and not s2c:
                    break
        finally:
            protocol._is_linux = saved
            authentication.getpass = saved_getpass
            if mech == 'DBUS_COOKIE_SHA1':
                authentication.BusCookieAuthenticator._step_one = orig_one
            shutil.rmtree(tmp, ignore_errors=True)
        check(srv.authed == 1 and cli.authed == 1, 'a conforming client with acceptable credentials is not accepted')
        check(srv.transport.lost == 0 and cli.transport.lost == 0, 'connection dropped during a valid handshake')
        reached()
    h.__name__ = 'e2e'
    return Spec(h, [('nrej', int)], witnesses=[(0,), (4,)])
