"""C07 - the client speaks DBus only after the server's OK and never stalls in handshake."""
import binascii

from ..engine import Spec, assume, check, reached, HarnessError, notrace, decode_choice, encode_choice
from ..runner import Ob
from ..fakes import FakeTransport

PROPERTY = 'C07'
FUNCS = ('txdbus.authentication:ClientAuthenticator.handleAuthMessage',
         'txdbus.authentication:ClientAuthenticator.authTryNextMethod',
         'txdbus.authentication:ClientAuthenticator._auth_OK', 'txdbus.authentication:ClientAuthenticator._auth_REJECTED',
         'txdbus.authentication:ClientAuthenticator._auth_ERROR', 'txdbus.authentication:ClientAuthenticator._auth_DATA',
         'txdbus.authentication:ClientAuthenticator._auth_AGREE_UNIX_FD',
         'txdbus.authentication:ClientAuthenticator._authGetDBusCookie',
         'txdbus.authentication:ClientAuthenticator.beginAuthentication',
         'txdbus.protocol:BasicDBusProtocol.dataReceived')
EXPLANATION = (
    'step: ONE real ClientAuthenticator.handleAuthMessage call from an ARBITRARY state (current mechanism, UNIX '
    'transport or not, OK already seen / descriptor negotiation pending) for a symbolic choice among 17 server line '
    'shapes: BEGIN only after OK with a valid GUID (on UNIX transports only after AGREE_UNIX_FD or ERROR answered the '
    'negotiation), next mechanism in preference order and never one already tried, failure when exhausted or on a '
    'line outside the protocol, and SOME reaction (a line written or a failure) to every line - the no-stall clause. '
    'run: k server lines from connectionMade through the real dataReceived. full: complete handshakes against a '
    'reference server for every subset of accepted mechanisms and both answers to NEGOTIATE_UNIX_FD.')
BOUNDS = {'quick': 'step: 3 mechanisms x unix/non-unix x negotiation pending or not x 17 line shapes (all); run: k <= 4 lines from 9 shapes; '
                   'full: 7 subsets x 2 transports x 2 answers',
          'thorough': 'run: k <= 5'}
ASSUMPTIONS = ['cookie lookup reads a keyring directory created by the harness under a temporary HOME (full) or is stubbed (step, run)',
               'os.urandom / SHA-1 are the real ones in full (the reference server recomputes the hash) and irrelevant in step/run',
               'getpass.getuser is stubbed to a fixed name']
STUBS = ['FakeProto/FakeTransport (+ IUNIXTransport variant)', 'authentication.getpass', 'ClientAuthenticator._authGetDBusCookie (step, run)',
         'reference server written from the DBus authentication specification (full)']

PREF = [b'EXTERNAL', b'DBUS_COOKIE_SHA1', b'ANONYMOUS']
COOKIE_DATA = binascii.hexlify(b'ctx 7 5e5e')
LINES = [
    (b'OK 6162', 'OK'), (b'OK  6162 ', 'OK'), (b'OK zz', 'BADOK'), (b'OK', 'BADOK'), (b'OK 616', 'BADOK'),
    (b'REJECTED', 'REJ'), (b'REJECTED EXTERNAL ANONYMOUS', 'REJ'), (b'ERROR', 'ERR'), (b'ERROR "no"', 'ERR'),
    (b'DATA', 'DATA'), (b'DATA ' + COOKIE_DATA, 'DATA'), (b'DATA zz', 'DATA'), (b'AGREE_UNIX_FD', 'AGREE'),
    (b'FOO', 'JUNK'), (b'', 'JUNK'), (b'\xff\xfe', 'JUNK'), (b'BEGIN', 'JUNK'),
    # a GUID is one run of hexadecimal digit pairs: white space inside it, or a second argument, is not a GUID
    (b'OK 61 62', 'BADOK'), (b'OK 6162 6364', 'BADOK'), (b'OK 61\t62', 'BADOK'), (b'OK 6 1', 'BADOK'),
    (b'OK 0x61', 'BADOK'), (b'OK +1', 'BADOK'),
]
# characters the GUID argument is built from in the guid family
GUID_ALPHABET = [b'6', b'a', b'F', b'0', b' ', b'\t', b'g', b'x', b'+', b'_', b'\x0b', b'\xe9']
GUID_SMALL = [b'6', b'F', b' ', b'\t', b'g']
HEXD = b'0123456789abcdefABCDEF'


def obligations(tier):
    obs = []
    for mi in range(3):
        for unix in (False, True):
            for pending in (False, True):
                if pending and not unix:
                    continue
                obs.append(Ob('step:m%d:%s:%s' % (mi, 'unix' if unix else 'tcp', 'negotiating' if pending else 'fresh'),
                              'step', {'mi': mi, 'unix': unix, 'pending': pending}, timeout=120, path_timeout=20, twin=True,
                              functions=FUNCS[:9], bounds='server line: symbolic choice among %d shapes; cookie lookup '
                              'outcome symbolic' % len(LINES)))
    for n in range(1, (5 if tier == 'quick' else 6) + 1):
        small = n >= 4 and not (tier == 'thorough' and n == 4)
        for unix in (False, True):
            obs.append(Ob('guid:len%d:%s' % (n, 'unix' if unix else 'tcp'), 'guid', {'n': n, 'unix': unix, 'small': small},
                          timeout=900 if tier == 'quick' else 3000, path_timeout=20, twin=True, functions=FUNCS[:9],
                          bounds='OK argument of %d characters, each a symbolic choice among %d (hex digits, blanks, '
                                 'other)' % (n, len(GUID_SMALL) if small else len(GUID_ALPHABET))))
    kmax = 4 if tier == 'quick' else 5
    for k in range(1, kmax + 1):
        for unix in (False, True):
            for split in (0, 1, 2, 3, 4):
                if k >= 3 and split:
                    continue
                firsts = [None] if k <= 2 else list(range(len(RUN_LINES)))
                for first in firsts:
                    obs.append(Ob('run:k%d:%s:split%d:first%s' % (k, 'unix' if unix else 'tcp', split, first), 'run',
                                  {'k': k, 'unix': unix, 'split': split, 'first': first},
                                  timeout=600 if k < 4 else 2400, path_timeout=30,
                                  twin=(first in (None, 0)), functions=FUNCS,
                                  bounds='%d server lines, each a symbolic choice among 9 shapes' % k))
    for sub in range(1, 8):
        for unix in (False, True):
            for agree in ((True, False) if unix else (True,)):
                obs.append(Ob('full:accept%d:%s:%s' % (sub, 'unix' if unix else 'tcp', 'agree' if agree else 'error'), 'full',
                              {'accept': sub, 'unix': unix, 'agree': agree}, timeout=120, path_timeout=60, twin=True,
                              functions=FUNCS, bounds='concrete handshake against the reference server'))
    return obs


class FakeProto:
    def __init__(self, transport):
        self.sent = []
        self.transport = transport

    def sendAuthMessage(self, m):
        self.sent.append(m)


def _unix_transport():
    from twisted.internet import interfaces
    from zope.interface import implementer

    @implementer(interfaces.IUNIXTransport)
    class FakeUnixTransport(FakeTransport):
        pass
    return FakeUnixTransport()


def _judge(sent, failed, ca, mi, unix, ok_before, kind, error_cls):
    """Clauses of the property for one reaction of the client."""
    begin = [m for m in sent if m[:5] == b'BEGIN']
    auths = [m for m in sent if m[:5] == b'AUTH ']
    # no-stall
    check(failed or len(sent) > 0, 'client neither answered nor failed: the handshake stalls')
    # BEGIN / authenticated only after OK (and a finished descriptor negotiation on UNIX transports)
    may_begin = (kind == 'OK' and not unix and not ok_before) or (ok_before and kind in ('AGREE', 'ERR'))
    if begin or ca.authenticationSucceeded():
        check(may_begin, 'BEGIN sent / authenticated without the server\'s OK (and finished negotiation)')
    if may_begin:
        check(len(begin) == 1 and ca.authenticationSucceeded() and not failed, 'client did not send BEGIN when it had to')
    if kind == 'OK' and unix and not ok_before:
        check(sent == [b'NEGOTIATE_UNIX_FD'] and not failed and not ca.authenticationSucceeded(),
              'UNIX transport: OK must be followed by NEGOTIATE_UNIX_FD, not BEGIN')
    # mechanisms in order, each at most once
    for a in auths:
        check(mi + 1 < len(PREF) and a.split()[1] == PREF[mi + 1] and len(auths) == 1,
              'client offers a mechanism out of preference order or one it already tried')
    if kind in ('REJ', 'ERR') and not ok_before:
        if mi + 1 < len(PREF):
            check(len(auths) == 1 and not failed, 'client did not move on to the next mechanism')
        else:
            check(failed and not sent, 'client must fail when its mechanisms are exhausted')
    if kind in ('BADOK', 'JUNK'):
        check(failed and not begin, 'a line outside the protocol must end the connection')
    if kind == 'AGREE' and not ok_before:
        check(not begin and not ca.authenticationSucceeded(), 'AGREE_UNIX_FD without OK must not authenticate')


def build(family, p):
    from txdbus import authentication, error, protocol
    if family == 'step':
        mi, unix, pending = p['mi'], p['unix'], p['pending']

        def h(li, cookie_ok):
            assume(0 <= li < len(LINES))
            raw, kind = LINES[li]
            with notrace():
                saved_gp = authentication.getpass
                authentication.getpass = type('G', (), {'getuser': staticmethod(lambda: 'user')})
                try:
                    ca = authentication.ClientAuthenticator()
                    pr = FakeProto(_unix_transport() if unix else FakeTransport())
                    ca.beginAuthentication(pr)
                finally:
                    authentication.getpass = saved_gp
                def fake_cookie(ctx, cid):
                    if cookie_ok:
                        return b'c00c1e'
                    raise IOError('no keyring')
                ca._authGetDBusCookie = fake_cookie
                # the pre-state is reached by conversation: `mi` mechanisms already refused, and (negotiating) the
                # server's OK already received on a UNIX transport
                authentication.getpass = type('G', (), {'getuser': staticmethod(lambda: 'user')})
                try:
                    for _ in range(mi):
                        ca.handleAuthMessage(b'REJECTED')
                    offered = [m.split()[1] for m in pr.sent if m[:5] == b'AUTH ']
                    if offered != PREF[:mi + 1]:
                        raise HarnessError('pre-state: mechanisms were not offered in preference order')
                    if pending:
                        ca.handleAuthMessage(b'OK 6162')
                        if pr.sent[-1] != b'NEGOTIATE_UNIX_FD':
                            raise HarnessError('pre-state: OK on a UNIX transport did not start the negotiation')
                finally:
                    authentication.getpass = saved_gp
                pr.sent[:] = []
            failed = False
            saved_gp = authentication.getpass
            authentication.getpass = type('G', (), {'getuser': staticmethod(lambda: 'user')})
            try:
                ca.handleAuthMessage(raw)
            except error.DBusAuthenticationFailed:
                failed = True
            finally:
                authentication.getpass = saved_gp
            _judge(pr.sent, failed, ca, mi, unix, pending, kind, error)
            reached()
        h.__name__ = 'step'
        return Spec(h, [('li', int), ('cookie_ok', bool)], witnesses=[(i, bool(i % 2)) for i in range(len(LINES))])
    if family == 'guid':
        n, unix = p['n'], p['unix']
        alpha = GUID_SMALL if p.get('small') else GUID_ALPHABET

        def h(code):
            sels = decode_choice(code, [len(alpha)] * n)
            with notrace():
                arg = b''.join(alpha[i] for i in sels)
                core = arg.strip(b' \t\n\r\x0b\x0c')
                valid = len(core) > 0 and len(core) % 2 == 0 and all(c in HEXD for c in core)
                saved_gp = authentication.getpass
                authentication.getpass = type('G', (), {'getuser': staticmethod(lambda: 'user')})
                try:
                    ca = authentication.ClientAuthenticator()
                    pr = FakeProto(_unix_transport() if unix else FakeTransport())
                    ca.beginAuthentication(pr)
                    pr.sent[:] = []
                    failed = False
                    try:
                        ca.handleAuthMessage(b'OK ' + arg)
                    except error.DBusAuthenticationFailed:
                        failed = True
                finally:
                    authentication.getpass = saved_gp
                begin = [m for m in pr.sent if m[:5] == b'BEGIN']
                nego = [m for m in pr.sent if m[:17] == b'NEGOTIATE_UNIX_FD']
                if not valid:
                    check(failed and not begin and not nego and not ca.authenticationSucceeded(),
                          'OK without a valid hexadecimal GUID was accepted')
                else:
                    check(not failed, 'OK with a valid GUID ended the connection')
                    if unix:
                        check(len(nego) == 1 and not begin, 'UNIX transport: OK must be followed by NEGOTIATE_UNIX_FD')
                    else:
                        check(len(begin) == 1 and ca.authenticationSucceeded(), 'client did not send BEGIN after OK')
            reached()
        h.__name__ = 'guid'
        total = len(alpha) ** n
        wit = sorted({0, 1, total - 1, total // 2, encode_choice(([0, 1, 2, 0, 1, 3] * 2)[:n], [len(alpha)] * n)})
        return Spec(h, [('code', int)], witnesses=[(w,) for w in wit])
    if family == 'run':
        return _build_run(p)
    if family == 'full':
        return _build_full(p)
    raise KeyError(family)


RUN_LINES = [0, 2, 5, 7, 9, 10, 12, 13, 3]


def _client_proto(authentication, protocol, unix):
    class Cli(protocol.BasicDBusProtocol):
        _client = True
        authenticator = authentication.ClientAuthenticator

        def __init__(self):
            self.authed = 0
            self.transport = _unix_transport() if unix else FakeTransport()

        def connectionAuthenticated(self):
            self.authed += 1
    return Cli


def _build_run(p):
    from txdbus import authentication, error, protocol
    k, unix, split = p['k'], p['unix'], p['split']

    first = p.get('first')
    nfree = k if first is None else k - 1

    def h(code):
        sels = decode_choice(code, [len(RUN_LINES)] * nfree)
        if first is not None:
            sels = [first] + sels
        with notrace():
            run(sels)
        reached()

    def run(sels):
        saved_gp = authentication.getpass
        authentication.getpass = type('G', (), {'getuser': staticmethod(lambda: 'user')})
        try:
            with notrace():
                Cli = _client_proto(authentication, protocol, unix)
                pr = Cli()
                pr.connectionMade()
                pr._dbusAuth._authGetDBusCookie = lambda ctx, cid: b'c00c1e'
            tr = pr.transport
            check(b''.join(tr.written[:1]) == b'\0', 'client must start with a NUL byte')
            lines = [LINES[RUN_LINES[s]] for s in sels]
            # reference bookkeeping
            mi, ok_seen, done = 0, False, False
            first_auth = [w for w in tr.written if w[:5] == b'AUTH ']
            check(len(first_auth) == 1 and first_auth[0].split()[1] == PREF[0], 'first mechanism offered is not the preferred one')
            for raw, kind in lines:
                if done:
                    break
                n0 = len(tr.written)
                lost0 = tr.lost
                data = raw + b'\r\n'
                if split:
                    # 1: after the first byte; 2: between CR and LF; 3: before CR; 4: in the middle of the line
                    cut = {1: 1, 2: len(data) - 1, 3: len(data) - 2, 4: len(data) // 2}[split]
                    pr.dataReceived(data[:cut])
                    pr.dataReceived(data[cut:])
                else:
                    pr.dataReceived(data)
                sent = [w for w in tr.written[n0:] if w != b'\r\n']
                failed = tr.lost > lost0
                ca = pr._dbusAuth
                begin = [m for m in sent if m[:5] == b'BEGIN']
                auths = [m for m in sent if m[:5] == b'AUTH ']
                check(failed or len(sent) > 0, 'client neither answered nor closed: the handshake stalls')
                may_begin = (kind == 'OK' and not unix and not ok_seen) or (ok_seen and kind in ('AGREE', 'ERR'))
                if begin or pr.authed:
                    check(may_begin, 'BEGIN sent / binary mode entered without OK (and finished negotiation)')
                if may_begin:
                    check(len(begin) == 1 and pr.authed == 1 and not failed, 'client did not send BEGIN when it had to')
                    done = True
                for a in auths:
                    check(mi + 1 < len(PREF) and a.split()[1] == PREF[mi + 1] and len(auths) == 1,
                          'client offers a mechanism out of order or twice')
                    mi += 1
                if kind in ('REJ', 'ERR') and not ok_seen and not failed:
                    check(len(auths) == 1, 'client did not move on after REJECTED/ERROR')
                if kind in ('BADOK', 'JUNK'):
                    check(failed, 'a line outside the protocol must end the connection')
                if kind == 'OK' and unix and not ok_seen and not failed:
                    ok_seen = True
                if failed:
                    done = True
            check(pr.authed <= 1, 'authenticated more than once')
        finally:
            authentication.getpass = saved_gp
    h.__name__ = 'run'
    wit = [[2] * k, [0] + [6] * (k - 1), [3] * k, [2, 0, 6, 3][:k]]
    wit = [(encode_choice((w[1:] if first is not None else w)[:nfree], [len(RUN_LINES)] * nfree),) for w in wit]
    return Spec(h, [('code', int)], witnesses=wit)


def _ref_server(accept, agree, cookie, guid=b'0123456789abcdef0123456789abcdef'):
    """Spec-conforming server over lines. accept: set of mechanism names it accepts."""
    import hashlib
    st = {'state': 'auth', 'mech': None, 'chal': b'5e5e5e', 'out': [], 'begun': False, 'closed': False}
    mechs = b' '.join(sorted(accept))

    def rej():
        st['out'].append(b'REJECTED ' + mechs)
        st['state'] = 'auth'

    def line(l):
        parts = l.split()
        cmd = parts[0] if parts else b''
        if st['state'] == 'auth':
            if cmd == b'AUTH':
                if len(parts) < 2 or parts[1] not in accept:
                    return rej()
                m = parts[1]
                st['mech'] = m
                if m == b'ANONYMOUS':
                    st['out'].append(b'OK ' + guid)
                    st['state'] = 'begin'
                elif m == b'EXTERNAL':
                    if len(parts) >= 3:
                        st['out'].append(b'OK ' + guid)
                        st['state'] = 'begin'
                    else:
                        st['out'].append(b'DATA')
                        st['state'] = 'data'
                else:
                    st['out'].append(b'DATA ' + binascii.hexlify(b'ctx 7 ' + st['chal']))
                    st['state'] = 'data'
            elif cmd == b'BEGIN':
                st['closed'] = True
            elif cmd == b'ERROR':
                rej()
            else:
                st['out'].append(b'ERROR')
        elif st['state'] == 'data':
            if cmd == b'DATA':
                if st['mech'] == b'EXTERNAL':
                    st['out'].append(b'OK ' + guid)
                    st['state'] = 'begin'
                else:
                    try:
                        cc, h = binascii.unhexlify(parts[1]).split()
                        want = binascii.hexlify(hashlib.sha1(st['chal'] + b':' + cc + b':' + cookie).digest())
                        if h == want:
                            st['out'].append(b'OK ' + guid)
                            st['state'] = 'begin'
                        else:
                            rej()
                    except Exception:
                        rej()
            elif cmd in (b'CANCEL', b'ERROR'):
                rej()
            elif cmd == b'BEGIN':
                st['closed'] = True
            else:
                st['out'].append(b'ERROR')
        elif st['state'] == 'begin':
            if cmd == b'BEGIN':
                st['begun'] = True
            elif cmd == b'NEGOTIATE_UNIX_FD':
                st['out'].append(b'AGREE_UNIX_FD' if agree else b'ERROR')
            elif cmd in (b'CANCEL', b'ERROR'):
                rej()
            else:
                st['out'].append(b'ERROR')
    return st, line


def _build_full(p):
    from txdbus import authentication, protocol
    import os, tempfile, shutil
    accept = {PREF[i] for i in range(3) if (p['accept'] >> i) & 1}
    unix, agree = p['unix'], p['agree']

    def h(dummy):
        with notrace():
            return body()

    def body():
        tmp = tempfile.mkdtemp(prefix='verif-c07-')
        saved_home = os.environ.get('HOME')
        saved_gp = authentication.getpass
        try:
            os.environ['HOME'] = tmp
            kd = os.path.join(tmp, '.dbus-keyrings')
            os.mkdir(kd, 0o700)
            cookie = b'c00c1ec00c1e'
            with open(os.path.join(kd, 'ctx'), 'wb') as f:
                f.write(b'3 1 dead\n7 1 ' + cookie + b'\n')
            authentication.getpass = type('G', (), {'getuser': staticmethod(lambda: 'user')})
            Cli = _client_proto(authentication, protocol, unix)
            cli = Cli()
            cli.connectionMade()
            st, srv_line = _ref_server(accept, agree, cookie)
            buf = b''
            for _ in range(30):
                out = b''.join(bytes(w) for w in cli.transport.written)
                cli.transport.clear()
                if out[:1] == b'\0' and not buf:
                    out = out[1:]
                buf += out
                progressed = False
                while b'\r\n' in buf:
                    l, buf = buf.split(b'\r\n', 1)
                    srv_line(l)
                    progressed = True
                back = b''.join(o + b'\r\n' for o in st['out'])
                st['out'][:] = []
                if back:
                    cli.dataReceived(back)
                    progressed = True
                if not progressed or cli.transport.lost or st['begun']:
                    break
        finally:
            authentication.getpass = saved_gp
            if saved_home is None:
                os.environ.pop('HOME', None)
            else:
                os.environ['HOME'] = saved_home
            shutil.rmtree(tmp, ignore_errors=True)
        check(st['begun'] and cli.authed == 1 and not cli.transport.lost and not st['closed'],
              'handshake with a conforming server that accepts one of the client\'s mechanisms did not complete')
        reached()
    h.__name__ = 'full'
    return Spec(h, [('dummy', bool)], witnesses=[(False,)])
