"""C12 - a signal reaches exactly the callbacks whose match rule it satisfies."""
from ..engine import Spec, assume, check, reached, HarnessError, notrace, decode_choice, encode_choice
from ..runner import Ob
from .. import ref_match

PROPERTY = 'C12'
FUNCS = ('txdbus.router:Rule.match', 'txdbus.router:Rule.add', 'txdbus.router:MessageRouter.addMatch',
         'txdbus.router:MessageRouter.delMatch', 'txdbus.router:MessageRouter.routeMessage',
         'txdbus.client:DBusClientConnection.addMatch', 'txdbus.client:DBusClientConnection.delMatch',
         'txdbus.client:DBusClientConnection.signalReceived', 'txdbus.objects:RemoteDBusObject.notifyOnSignal',
         'txdbus.bus:Bus.dbus_AddMatch')
EXPLANATION = (
    'The real MessageRouter / Rule.match is compared with match-rule semantics written from the specification '
    '(vf/ref_match.py): callback invoked iff the rule matches, at most once per rule. keys: simple keys and message '
    'type as symbolic selectors with near-misses. ns / arg / argpath: the rule value AND the message path / argument are '
    'SYMBOLIC strings over the alphabet {/, a, b} (sibling prefixes, trailing slashes, empty strings all included). '
    'sets: up to 3 rules with a raising callback and add/remove histories. text: the rule text sent by '
    'DBusClientConnection.addMatch and parsed back by Bus.dbus_AddMatch expresses the same constraints. proxy: '
    'notifyOnSignal passes the arguments only for the declared signature.')
BOUNDS = {'quick': 'ns: namespace len <= 3, path len <= 4; arg: len <= 2; argpath: len <= 3 both sides; sets: 3 rules, 4 operations (every history)',
          'thorough': 'ns: len <= 4 / 4; argpath: total length <= 6; sets: 5 operations'}
ASSUMPTIONS = ['strings range over the alphabet {"/", "a", "b"} (one separator, two letters): enough to express equal / prefix / sibling-prefix / trailing-slash relations',
               'the router is driven with attribute-carrying message objects (it only reads attributes); real messages are used in text and proxy',
               'the sender key is not in the statement and is not checked']
STUBS = ['Msg attribute holder for router-level obligations', 'FakeTransport + virtual clock for the client connection']


class Msg:
    def __init__(self, mt=4, interface='org.a.I', member='Sig', path='/a', destination=None, body=None, signature=None):
        self._messageType = mt
        self.interface, self.member, self.path, self.destination = interface, member, path, destination
        self.body, self.signature = body, signature
        self.sender = ':1.3'


def _alpha(s, assume):
    for ch in s:
        assume(ch == '/' or ch == 'a' or ch == 'b')


def _valid_path(s):
    if s == '/':
        return True
    if len(s) == 0 or s[0] != '/' or s[-1] == '/':
        return False
    return '//' not in s


def obligations(tier):
    obs = []
    for key in ('interface', 'member', 'path', 'destination', 'mtype'):
        obs.append(Ob('keys:' + key, 'keys', {'key': key}, timeout=120, twin=True, functions=FUNCS[:5],
                      bounds='rule value and message value: symbolic selectors over a pool with near-misses; other keys present or not'))
    nsl, pl = (3, 4) if tier == 'quick' else (4, 4)
    for a in range(1, nsl + 1):
        for b in range(1, pl + 1):
            obs.append(Ob('ns:%d:%d' % (a, b), 'ns', {'nl': a, 'pl': b}, timeout=300 if a + b <= 7 else 2400, path_timeout=30, twin=(a + b) % 2 == 0,
                          functions=FUNCS[:2], bounds='namespace: symbolic string len %d; path: symbolic string len %d' % (a, b)))
    for a in range(0, 3):
        for b in range(0, 3):
            obs.append(Ob('arg:%d:%d' % (a, b), 'arg', {'rl': a, 'al': b}, timeout=300, path_timeout=30, twin=(a == b),
                          functions=FUNCS[:2], bounds='rule value len %d, argument len %d, symbolic; body shape selector' % (a, b)))
    apl = 3 if tier == 'quick' else 4
    for a in range(1, apl + 1):
        for b in range(0, apl + 1):
            if a + b > 6 or (a, b) == (4, 2):
                continue        # (4, 2): CrossHair 0.0.110 internal error (SymbolicBoundedIntTuple) - engine bug, not decidable here
            obs.append(Ob('argpath:%d:%d' % (a, b), 'argpath', {'rl': a, 'al': b}, timeout=600, path_timeout=30,
                          twin=(a + b) % 2 == 0, functions=FUNCS[:2],
                          bounds='rule value len %d, argument len %d, symbolic' % (a, b)))
    nops = 4 if tier == 'quick' else 5
    for raiser in range(3):
        for first in ([None] if nops == 4 else list(range(9))):
            obs.append(Ob('sets:raiser%d:n%d:first%s' % (raiser, nops, first), 'sets',
                          {'raiser': raiser, 'nops': nops, 'first': first}, timeout=900, path_timeout=30,
                          twin=(first in (None, 0)), functions=FUNCS[:5],
                          bounds='3 rules, %d add/remove/route operations (symbolic selectors), one raising callback' % nops))
    for tb in range(4):
        obs.append(Ob('text:%d' % tb, 'text', {'tb': tb}, timeout=900, path_timeout=60, twin=True, functions=FUNCS[5:8] + FUNCS[9:] + FUNCS[:5],
                      bounds='presence of each of 8 rule keys symbolic (2 fixed per obligation); 8 messages'))
    for via in ('match', 'proxy'):
        obs.append(Ob('same:%s' % via, 'same', {'via': via}, timeout=300, path_timeout=60, twin=True,
                      functions=FUNCS[5:9] + FUNCS[:5],
                      bounds='three subscriptions on one connection, two of them with identical constraints; which are '
                             'removed, and in which order: symbolic selectors'))
    obs.append(Ob('proxy:signature', 'proxy', {}, timeout=300, path_timeout=60, twin=True, functions=FUNCS[8:9] + FUNCS[5:8],
                  bounds='message selector over 6 signals'))
    return obs


POOLS = {'interface': ['org.a.I', 'org.a.J', 'org.a.I2', None], 'member': ['Sig', 'Sig2', 'sig', None],
         'path': ['/a', '/a/b', '/ab', None], 'destination': [':1.5', ':1.50', 'org.b', None]}
MT = ['method_call', 'method_return', 'error', 'signal']


def build(family, p):
    from txdbus import router

    def routed(rule_kwargs, msg):
        calls = []
        r = router.MessageRouter()
        r.addMatch(lambda m: calls.append(m), **rule_kwargs)
        r.routeMessage(msg)
        return calls

    def to_kwargs(rule):
        kw = dict(rule)
        return kw

    if family == 'keys':
        key = p['key']

        def h(rv, mv, other, omatch):
            assume(0 <= rv < 4 and 0 <= mv < 4)
            rule = {}
            msg = Msg()
            if key == 'mtype':
                rule['mtype'] = MT[rv]
                msg._messageType = mv + 1
            else:
                assume(POOLS[key][rv] is not None)
                rule[key] = POOLS[key][rv]
                setattr(msg, key, POOLS[key][mv])
            if other:
                # a second, independent constraint that matches or not
                k2 = 'member' if key != 'member' else 'interface'
                rule[k2] = POOLS[k2][0]
                setattr(msg, k2, POOLS[k2][0] if omatch else POOLS[k2][1])
            calls = routed(to_kwargs(rule), msg)
            want = ref_match.match(rule, msg)
            check(len(calls) == (1 if want else 0), 'callback invoked iff the message satisfies the rule (simple keys)')
            reached()
        h.__name__ = 'keys'
        return Spec(h, [('rv', int), ('mv', int), ('other', bool), ('omatch', bool)],
                    witnesses=[(0, 0, False, False), (0, 1, False, False), (2, 2, True, True), (1, 1, True, False), (1, 3, False, False)])

    if family == 'ns':
        nl, pl = p['nl'], p['pl']

        def h(ns, path, nopath):
            assume(len(ns) == nl and len(path) == pl)
            _alpha(ns, assume)
            _alpha(path, assume)
            assume(_valid_path(ns) and _valid_path(path))
            msg = Msg(path=None if nopath else path)
            rule = {'path_namespace': ns}
            calls = routed(rule, msg)
            want = ref_match.match(rule, msg)
            check(len(calls) == (1 if want else 0),
                  'path_namespace must match that path or a descendant of it, nothing else')
            reached()
        h.__name__ = 'ns'
        wit = [(w[0], w[1], False) for w in [('/', '/'), ('/a', '/a'), ('/a', '/ab'), ('/a', '/a/b'), ('/ab', '/a/b'),
                                             ('/a/b', '/a/b'), ('/', '/a/b'), ('/b', '/ba'), ('/a/b', '/a/ba'),
                                             ('/a/a', '/a/a/b')] if len(w[0]) == nl and len(w[1]) == pl]
        return Spec(h, [('ns', str), ('path', str), ('nopath', bool)], witnesses=wit)

    if family == 'arg':
        rl, al = p['rl'], p['al']

        def h(rv, av, shape, idx):
            assume(len(rv) == rl and len(av) == al)
            _alpha(rv, assume)
            _alpha(av, assume)
            assume(0 <= shape < 5 and 0 <= idx < 2)
            body = [None, [], [7], [av], ['x', av]][shape]
            msg = Msg(body=body)
            rule = {'args': [(idx, rv)]}
            calls = routed(rule, msg)
            want = ref_match.match(rule, msg)
            check(len(calls) == (1 if want else 0),
                  'argN constraint: the N-th argument must exist, be a string and be equal')
            reached()
        h.__name__ = 'arg'
        wit = [('ab'[:rl], 'ab'[:al], s, i) for s in range(5) for i in range(2)]
        return Spec(h, [('rv', str), ('av', str), ('shape', int), ('idx', int)], witnesses=wit)

    if family == 'argpath':
        rl, al = p['rl'], p['al']

        def h(rv, av, shape):
            assume(len(rv) == rl and len(av) == al)
            _alpha(rv, assume)
            _alpha(av, assume)
            assume(0 <= shape < 4)
            body = [None, [7], [av], ['x']][shape]
            msg = Msg(body=body)
            rule = {'arg_paths': [(0, rv)]}
            calls = routed(rule, msg)
            want = ref_match.match(rule, msg)
            check(len(calls) == (1 if want else 0),
                  'argNpath: equal, or whichever of the two ends in "/" is a prefix of the other')
            reached()
        h.__name__ = 'argpath'
        base = [('/a/', '/a/b'), ('/a/b', '/a/'), ('/a', '/ab'), ('/a', '/a'), ('/a/', '/a/'), ('/ab', '/a'), ('/', '/a'),
                ('/a', '/'), ('/a/', '/a'), ('/a', ''), ('/a/b', '/a/')]
        wit = [(a, b, s) for (a, b) in base if len(a) == rl and len(b) == al for s in range(4)]
        if not wit:
            wit = [(('/ab' * 3)[:rl], ('/ab' * 3)[:al], s) for s in range(4)]
        return Spec(h, [('rv', str), ('av', str), ('shape', int)], witnesses=wit)

    if family == 'sets':
        RULES = [{'member': 'Sig'}, {'interface': 'org.a.I', 'path_namespace': '/a'}, {'member': 'Other'}]
        MSGS = [Msg(), Msg(member='Other', path='/b'), Msg(interface='org.a.J', member='Sig', path='/a/b')]

        raiser, nops, first = p['raiser'], p['nops'], p.get('first')

        nfree = nops if first is None else nops - 1

        def h(code):
            ops = decode_choice(code, [9] * nfree)
            if first is not None:
                ops = [first] + ops
            with notrace():
                run(ops)
            reached()

        def run(ops):
            r = router.MessageRouter()
            ids = {}
            counts = [0, 0, 0]
            live = set()

            def mk(i):
                def cb(m):
                    counts[i] += 1
                    if i == raiser:
                        raise RuntimeError('callback failure')
                return cb
            removed = set()
            for op in ops:
                if op < 3:                       # add rule op
                    if op not in live and op not in removed:
                        ids[op] = r.addMatch(mk(op), **RULES[op])
                        live.add(op)
                elif op < 6:                     # remove rule op-3
                    i = op - 3
                    if i in live:
                        r.delMatch(ids[i])
                        live.discard(i)
                        removed.add(i)
                else:                            # route message op-6
                    m = MSGS[op - 6]
                    before = list(counts)
                    r.routeMessage(m)
                    for i in range(3):
                        want = 1 if (i in live and ref_match.match(RULES[i], m)) else 0
                        check(counts[i] - before[i] == want,
                              'each live matching rule fires exactly once, removed or non-matching rules never')
        h.__name__ = 'sets'
        wit = [list(w[:nops]) for w in [(0, 1, 6, 7, 8), (0, 6, 3, 6, 0), (1, 2, 8, 7, 6), (2, 7, 5, 7, 1)]]
        wit = [(encode_choice((w[1:] if first is not None else w)[:nfree], [9] * nfree),) for w in wit]
        return Spec(h, [('code', int)], witnesses=wit)

    if family in ('text', 'proxy', 'same'):
        return _build_client(family, p)
    raise KeyError(family)


def _build_client(family, p):
    from ..fakes import install_clock_reactor, fresh_clock
    install_clock_reactor()
    from txdbus import client, message, objects, interface, bus as busmod
    from .c08 import _mk_conn

    def sig_msg(path='/a', member='Sig', iface='org.a.I', dest=None, sig=None, body=None):
        message.DBusMessage._nextSerial = 900
        return message.SignalMessage(path, member, iface, destination=dest, signature=sig, body=body)

    def msgs():
        message.DBusMessage._nextSerial = 900
        out = [sig_msg(), sig_msg(path='/a/b'), sig_msg(path='/ab'), sig_msg(member='Other'),
               sig_msg(iface='org.a.J'), sig_msg(dest=':1.5'), sig_msg(sig='ss', body=['/a/', '/a/b']),
               sig_msg(sig='ss', body=['/a/', '/ab']), sig_msg(sig='s', body=['/a/'])]
        out.append(message.MethodCallMessage('/a', 'Sig', interface='org.a.I'))
        return out

    if family == 'text':
        tb = p['tb']

        def h(b_member, b_path, b_ns, b_dest, b_arg, b_argp):
            b_type, b_iface = bool(tb & 1), bool(tb & 2)
            message.DBusMessage._nextSerial = 1
            with notrace():
                clock = fresh_clock()
                conn = _mk_conn(client)
                MSGS = msgs()
                message.DBusMessage._nextSerial = 40
            kw, rule = {}, {}
            if b_type:
                kw['mtype'] = rule['mtype'] = 'signal'
            if b_iface:
                kw['interface'] = rule['interface'] = 'org.a.I'
            if b_member:
                kw['member'] = rule['member'] = 'Sig'
            if b_path:
                kw['path'] = rule['path'] = '/a'
            if b_ns:
                kw['path_namespace'] = rule['path_namespace'] = '/a'
            if b_dest:
                kw['destination'] = rule['destination'] = ':1.5'
            if b_arg:
                kw['arg'] = rule['args'] = [(0, '/a/')]
            if b_argp:
                kw['arg_path'] = rule['arg_paths'] = [(1, '/a/')]
            got = []
            res = []
            d = conn.addMatch(lambda m: got.append(m), **kw)
            d.addCallback(res.append)
            w = [e[1] for e in conn.transport.events if e[0] == 'write']
            check(len(w) == 1, 'addMatch must send exactly one message to the bus')
            call = message.parseMessage(w[0], [])
            check(call.member == 'AddMatch' and call.destination == 'org.freedesktop.DBus'
                  and call.interface == 'org.freedesktop.DBus' and call.signature == 's', 'AddMatch call malformed')
            text = call.body[0]
            parsed = ref_match.parse(text)
            check(parsed == rule, 'rule text sent to the bus does not express the same constraints')
            check(got == [] and res == [], 'rule active before the bus acknowledged it')
            message.DBusMessage._nextSerial = 41
            conn.methodReturnReceived(message.MethodReturnMessage(call.serial))
            check(len(res) == 1, 'addMatch did not complete with a rule id')
            # ---- bus side: parse the same text and route
            with notrace():
                b = busmod.Bus()

                class Peer:
                    uniqueName = ':1.1'

                    def __init__(self):
                        self.sent = []

                    def sendMessage(self, m):
                        self.sent.append(m)
                peer = Peer()
                b.clients[':1.1'] = peer
            b.dbus_AddMatch(text, dbusCaller=':1.1')
            for m in MSGS:
                n0, p0 = len(got), len(peer.sent)
                if m._messageType == 4:
                    conn.signalReceived(m)
                else:
                    conn.router.routeMessage(m)
                b.router.routeMessage(m)
                want = 1 if ref_match.match(rule, m) else 0
                check(len(got) - n0 == want, 'client-side callback invoked iff the message satisfies the rule')
                check(len(peer.sent) - p0 == want, 'bus-side rule (parsed from the text) delivers iff the message satisfies the rule')
            # ---- removal
            n0 = len(conn.transport.events)
            conn.delMatch(res[0])
            w = [e[1] for e in conn.transport.events[n0:] if e[0] == 'write']
            rm = message.parseMessage(w[0], [])
            check(rm.member == 'RemoveMatch' and rm.body == [text], 'RemoveMatch must name the same rule text')
            message.DBusMessage._nextSerial = 43
            conn.methodReturnReceived(message.MethodReturnMessage(rm.serial))
            n0 = len(got)
            for m in MSGS:
                conn.router.routeMessage(m)
            check(len(got) == n0, 'callback invoked after its rule was removed')
            reached()
        h.__name__ = 'text'
        names = ['b_member', 'b_path', 'b_ns', 'b_dest', 'b_arg', 'b_argp']
        return Spec(h, [(n, bool) for n in names],
                    witnesses=[tuple([True] * 6), tuple([False] * 6), (True, False, True, False, True, False)])

    if family == 'same':
        via = p['via']
        SHAPES = [dict(mtype='signal', interface='org.a.I', member='Sig', path='/a'), dict(member='Sig'), dict()]
        sizes = [len(SHAPES), 2, 4, 2]

        def h(code):
            sel = decode_choice(code, sizes)
            with notrace():
                run(sel)
            reached()

        def run(sel):
            shape, third_same, removed, order = sel
            fresh_clock()
            message.DBusMessage._nextSerial = 1
            conn = _mk_conn(client)
            message.DBusMessage._nextSerial = 40
            serial = [100]

            def ack():
                w = [e[1] for e in conn.transport.events if e[0] == 'write']
                call = message.parseMessage(w[-1], [])
                serial[0] += 1
                message.DBusMessage._nextSerial = serial[0]
                conn.methodReturnReceived(message.MethodReturnMessage(call.serial))
                return call
            got = {'A': [], 'B': [], 'C': []}
            ids = {}
            if via == 'proxy':
                iface = interface.DBusInterface('org.a.I', interface.Signal('Sig', 's'), interface.Signal('Other', 's'),
                                                noRegister=True)
                ro = objects.RemoteDBusObject(conn.objHandler, 'org.b', '/a', [iface])
                ro2 = objects.RemoteDBusObject(conn.objHandler, 'org.b', '/a', [iface]) if shape == 1 else ro
                subs = [('A', ro, 'Sig'), ('B', ro2, 'Sig'), ('C', ro, 'Sig' if third_same else 'Other')]
                for name, r, signame in subs:
                    res = []
                    r.notifyOnSignal(signame, (lambda n: lambda *a: got[n].append(a))(name)).addCallback(res.append)
                    ack()
                    check(len(res) == 1, 'subscription did not complete with a rule id')
                    ids[name] = (r, res[0])
                wants = {'A': 'Sig', 'B': 'Sig', 'C': 'Sig' if third_same else 'Other'}
            else:
                kws = {'A': SHAPES[shape], 'B': SHAPES[shape], 'C': SHAPES[shape] if third_same else dict(member='Other')}
                for name in 'ABC':
                    res = []
                    conn.addMatch((lambda n: lambda m: got[n].append(m))(name), **kws[name]).addCallback(res.append)
                    ack()
                    check(len(res) == 1, 'addMatch did not complete with a rule id')
                    ids[name] = (None, res[0])
                wants = {n: kws[n].get('member') for n in 'ABC'}
            check(len({v[1] for v in ids.values()}) == 3, 'two live subscriptions share a rule id')
            gone = [[], ['A'], ['B'], ['A', 'B']][removed]
            if order:
                gone = list(reversed(gone))
            for name in gone:
                r, rid = ids[name]
                if r is not None:
                    r.cancelSignalNotification(rid)
                else:
                    conn.delMatch(rid)
                ack()
            for member in ('Sig', 'Other'):
                for n in got:
                    got[n][:] = []
                message.DBusMessage._nextSerial = 900
                conn.signalReceived(message.SignalMessage('/a', member, 'org.a.I', signature='s', body=['v']))
                for n in 'ABC':
                    want = 0 if n in gone else (1 if wants[n] in (None, member) else 0)
                    check(len(got[n]) == want,
                          'a subscription is served iff it was not removed and the signal satisfies its rule '
                          '(removing one subscription must not affect another with the same constraints)')
        h.__name__ = 'same'
        total = 1
        for z in sizes:
            total *= z
        return Spec(h, [('code', int)], witnesses=[(0,), (total - 1,), (encode_choice([0, 1, 1, 0], sizes),),
                                                   (encode_choice([1, 0, 2, 1], sizes),)])

    def h(mi):
        message.DBusMessage._nextSerial = 1
        with notrace():
            clock = fresh_clock()
            conn = _mk_conn(client)
            iface = interface.DBusInterface('org.a.I', interface.Signal('Sig', 's'), interface.Signal('Void', ''),
                                            noRegister=True)
            ro = objects.RemoteDBusObject(conn.objHandler, 'org.b', '/a', [iface])
            POOL = [(sig_msg(sig='s', body=['x']), ('x',)), (sig_msg(sig='i', body=[5]), None),
                    (sig_msg(sig='ss', body=['x', 'y']), None), (sig_msg(), None),
                    (sig_msg(path='/a/b', sig='s', body=['x']), None), (sig_msg(member='Other', sig='s', body=['x']), None)]
            message.DBusMessage._nextSerial = 40
        assume(0 <= mi < len(POOL))
        got = []
        d = ro.notifyOnSignal('Sig', lambda *a: got.append(a))
        w = [e[1] for e in conn.transport.events if e[0] == 'write']
        call = message.parseMessage(w[0], [])
        rule = ref_match.parse(call.body[0])
        check(rule == {'mtype': 'signal', 'path': '/a', 'member': 'Sig', 'interface': 'org.a.I'},
              'signal subscription does not ask the bus for exactly this signal')
        message.DBusMessage._nextSerial = 41
        conn.methodReturnReceived(message.MethodReturnMessage(call.serial))
        m, want = POOL[mi]
        conn.signalReceived(m)
        if want is None:
            check(got == [], 'callback invoked for a signal that is not the declared one')
        else:
            check(got == [want], 'callback did not receive the signal arguments')
        reached()
    h.__name__ = 'proxy'
    return Spec(h, [('mi', int)], witnesses=[(i,) for i in range(6)])
