"""C10 - every call to an exported object gets exactly one correctly addressed reply."""
from ..engine import Spec, assume, check, reached, HarnessError, notrace, decode_choice, encode_choice
from ..runner import Ob
from ..ref_sig import split

PROPERTY = 'C10'
FUNCS = ('txdbus.objects:DBusObjectHandler.handleMethodCallMessage', 'txdbus.objects:DBusObjectHandler._send_err',
         'txdbus.objects:DBusObject.executeMethod', 'txdbus.objects:DBusObject._getDecoratedMethod',
         'txdbus.objects:DBusObject._iterIFaceCaches', 'txdbus.objects:DBusObject._set_method_flags',
         'txdbus.message:MethodReturnMessage.__init__', 'txdbus.message:ErrorMessage.__init__',
         'txdbus.message:parseMessage')
EXPLANATION = (
    'The real DBusObjectHandler.handleMethodCallMessage receives a call that was built by the real constructor with a '
    'SYMBOLIC serial, expectReply flag and integer argument, serialised and parsed back by the real parseMessage (so the '
    'no-reply flag arrives as peers send it). Path / interface / member / signature / outcome are symbolic selectors over '
    'an exported object that has the same member on two interfaces (one dbus_<name>, two @dbusMethod bindings), an '
    'inherited interface and a dbusCaller parameter. A reference dispatch table decides: at most one reply, exactly one if '
    'expected, none if a no-reply call was dispatched; reply serial == call serial (all u32), destination == sender; user '
    'code ran once with the decoded arguments iff path, member and signature match, else UnknownObject / UnknownMethod / '
    'InvalidArgs and no user code; value / tuple / Deferred results encoded under the declared signature; error naming rule.')
BOUNDS = {'quick': '2 paths x 6 interface choices x 11 members x 3 signatures x outcomes; serial u32, argument int32, expectReply symbolic',
          'thorough': 'same, plus the built-in Peer / Introspectable / ObjectManager members'}
ASSUMPTIONS = ['one exported class family (defined in the harness); random interface declarations are outside the claim',
               'a returned Deferred is fired by the harness after the handler returned (fired-later outcome)']
STUBS = ['recording connection object (sendMessage)']

PATHS = ['/obj', '/nope']
IFACES = [None, 'org.t.I1', 'org.t.I2', 'org.t.I0', 'org.t.Unknown', 'org.freedesktop.DBus.Properties']
MEMBERS = ['Echo', 'Same', 'Pair', 'Nothing', 'Later', 'LaterFail', 'Fail', 'FailNamed', 'FailBadName', 'Who', 'BadRet',
           'Inherited', 'Missing', 'List1', 'List2', 'Struct1', 'Short', 'Long']
SIGS = [None, 'i', 's']
SENDER = ':1.9'

# declared methods: iface -> member -> (sigIn, sigOut)
DECL = {
    'org.t.I1': {'Echo': ('i', 'i'), 'Same': ('i', 'i'), 'Pair': ('', 'ii'), 'Nothing': ('', ''), 'Later': ('i', 'i'),
                 'LaterFail': ('i', 'i'), 'Fail': ('i', 'i'), 'FailNamed': ('i', 'i'), 'FailBadName': ('i', 'i'),
                 'Who': ('', 's'), 'BadRet': ('', 'i'), 'List1': ('i', 'ai'), 'List2': ('i', 'ai'), 'Struct1': ('i', '(i)'),
                 'Short': ('', 'is'), 'Long': ('', 'is')},
    'org.t.I2': {'Same': ('s', 's'), 'Who': ('', 's')},
    'org.t.I0': {'Inherited': ('', 's'), 'Same': ('i', 'i')},
    'org.freedesktop.DBus.Properties': {'Get': ('ss', 'v'), 'Set': ('ssv', ''), 'GetAll': ('s', 'a{sv}')},
}
ORDER = ['org.t.I1', 'org.t.I2', 'org.t.I0', 'org.freedesktop.DBus.Properties']


def obligations(tier):
    obs = []
    for pi in range(len(PATHS)):
        for ii in range(len(IFACES)):
            obs.append(Ob('call:%s:%s' % (PATHS[pi], IFACES[ii]), 'call', {'pi': pi, 'ii': ii}, timeout=600,
                          path_timeout=30, twin=True, functions=FUNCS,
                          bounds='member, signature selectors; serial u32; argument int32; expectReply symbolic'))
    obs.append(Ob('seq:two-calls', 'seq', {}, timeout=900, path_timeout=60, twin=True, functions=FUNCS,
                  bounds='two consecutive calls on one exported instance: (interface, member) x (interface, member) selectors'))
    obs.append(Ob('unexp:call-unexport-call', 'unexp', {}, timeout=600, path_timeout=60, twin=True, functions=FUNCS,
                  bounds='(interface, member) selectors; the same call before an unexport, after it, and after a re-export'))
    obs.append(Ob('builtin:ping', 'ping', {}, timeout=60, twin=True, functions=FUNCS[:1],
                  bounds='serial u32, expectReply symbolic'))
    return obs


_world = {}


def _mk_world():
    if _world:
        return _world
    from txdbus import objects, interface
    from txdbus.interface import DBusInterface, Method
    from twisted.internet import defer
    I1 = DBusInterface('org.t.I1', *[Method(m, a, r) for m, (a, r) in DECL['org.t.I1'].items()], noRegister=True)
    I2 = DBusInterface('org.t.I2', Method('Same', 's', 's'), Method('Who', '', 's'), noRegister=True)
    I0 = DBusInterface('org.t.I0', Method('Inherited', '', 's'), Method('Same', 'i', 'i'), noRegister=True)

    class NamedErr(Exception):
        dbusErrorName = 'org.t.Err.Named'

    class BadNameErr(Exception):
        dbusErrorName = 'not a valid name'

    class Base(objects.DBusObject):
        dbusInterfaces = [I0]

        def dbus_Inherited(self):
            self.log.append(('Inherited',))
            return 'base'

        # a third binding of the shared member name, made by the base class for the base class's interface:
        # the subclass has no binding at all for org.t.I0
        @objects.dbusMethod('org.t.I0', 'Same')
        def same_base(self, x):
            self.log.append(('Same0', x))
            return ~x

    class Obj(Base):
        dbusInterfaces = [I1, I2]

        def __init__(self, path):
            Base.__init__(self, path)
            self.log = []
            self.later = []

        def dbus_Echo(self, x):
            self.log.append(('Echo', x))
            return x

        @objects.dbusMethod('org.t.I1', 'Same')
        def same_one(self, x):
            self.log.append(('Same1', x))
            return x

        @objects.dbusMethod('org.t.I2', 'Same')
        def same_two(self, s):
            self.log.append(('Same2', s))
            return s + '!'

        def dbus_Pair(self):
            self.log.append(('Pair',))
            return (1, 2)

        def dbus_Nothing(self):
            self.log.append(('Nothing',))

        def dbus_Later(self, x):
            self.log.append(('Later', x))
            d = defer.Deferred()
            self.later.append(('ok', d, x))
            return d

        def dbus_LaterFail(self, x):
            self.log.append(('LaterFail', x))
            d = defer.Deferred()
            self.later.append(('fail', d, x))
            return d

        def dbus_Fail(self, x):
            self.log.append(('Fail', x))
            raise ValueError('plain failure')

        def dbus_FailNamed(self, x):
            self.log.append(('FailNamed', x))
            raise NamedErr('named failure')

        def dbus_FailBadName(self, x):
            self.log.append(('FailBadName', x))
            raise BadNameErr('bad name failure')

        @objects.dbusMethod('org.t.I1', 'Who')        # shared member name: both bindings name their interface
        def dbus_Who(self, dbusCaller=None):
            self.log.append(('Who', dbusCaller))
            return dbusCaller

        def dbus_BadRet(self):
            self.log.append(('BadRet',))
            return 'not an int'

        @objects.dbusMethod('org.t.I2', 'Who')
        def who_two(self):
            self.log.append(('Who2',))
            return 'two'

        def dbus_List1(self, x):
            self.log.append(('List1', x))
            return [x]

        def dbus_List2(self, x):
            self.log.append(('List2', x))
            return [x, x]

        def dbus_Short(self):
            self.log.append(('Short',))
            return (1,)                 # one value under a two-value signature: not encodable

        def dbus_Long(self):
            self.log.append(('Long',))
            return (1, 's', 3)          # three values under a two-value signature: not encodable

        def dbus_Struct1(self, x):
            self.log.append(('Struct1', x))
            return (x,)

    class Conn:
        def __init__(self):
            self.sent = []

        def sendMessage(self, m):
            self.sent.append(m)

    # warm the per-class caches so every path sees the same state
    c = Conn()
    h = objects.DBusObjectHandler(c)
    o = Obj('/obj')
    h.exportObject(o)
    # warm the lazily set per-method flags through the public entry point, one concrete call per member
    from txdbus import message as _m
    for iface_name, members in DECL.items():
        if not iface_name.startswith('org.t.'):
            continue
        for member, (sin, sout) in members.items():
            _m.DBusMessage._nextSerial = 3
            body = {'': None, 'i': [1], 's': ['w']}[sin]
            call = _m.MethodCallMessage('/obj', member, interface=iface_name, signature=sin or None, body=body)
            call.sender = ':1.1'
            h.handleMethodCallMessage(call)
    for kind, d, val in list(o.later):
        try:
            d.callback(val)
        except Exception:
            pass
    _world.update(Obj=Obj, Conn=Conn, NamedErr=NamedErr, BadNameErr=BadNameErr)
    return _world


def ref_dispatch(path, iface, member, sig):
    """-> ('UnknownObject'|'UnknownMethod'|'InvalidArgs'|'run', iface_name)"""
    if path != '/obj':
        return 'UnknownObject', None
    found = None
    if iface is not None:
        if iface in DECL and iface in ORDER:
            found = iface
    else:
        for nm in ORDER:
            if member in DECL[nm]:
                found = nm
                break
    if found is None or member not in DECL[found]:
        return 'UnknownMethod', None
    want = DECL[found][member][0]
    if (sig or '') != want:
        return 'InvalidArgs', found
    return 'run', found


def build(family, p):
    from txdbus import objects, message, error
    W = _mk_world()

    if family == 'ping':
        def h(S, er):
            assume(1 <= S < 2 ** 32)
            message.DBusMessage._nextSerial = 1
            with notrace():
                conn = W['Conn']()
                handler = objects.DBusObjectHandler(conn)
            message.DBusMessage._nextSerial = S
            call = message.MethodCallMessage('/any', 'Ping', interface='org.freedesktop.DBus.Peer', expectReply=er)
            call.sender = SENDER
            call._marshal(False)
            msg = message.parseMessage(call.rawMessage, [])
            message.DBusMessage._nextSerial = 7
            handler.handleMethodCallMessage(msg)
            check(len(conn.sent) <= 1, 'more than one reply')
            if er:
                check(len(conn.sent) == 1, 'Ping expecting a reply got none')
            for r in conn.sent:
                check(r._messageType == 2 and r.reply_serial == S and r.destination == SENDER, 'Ping reply misaddressed')
            reached()
        h.__name__ = 'ping'
        return Spec(h, [('S', int), ('er', bool)], witnesses=[(1, True), (2 ** 32 - 1, False)])

    if family == 'unexp':
        U_IF = [None, 'org.t.I1', 'org.t.I2', 'org.t.I0']
        U_MEM = ['Who', 'Same', 'Echo', 'Pair', 'Inherited', 'Nothing']
        usizes = [len(U_IF), len(U_MEM), 2]

        def hu(code):
            sel = decode_choice(code, usizes)
            with notrace():
                run_u(sel)
            reached()

        def run_u(sel):
            iface, member, again = U_IF[sel[0]], U_MEM[sel[1]], sel[2]
            conn = W['Conn']()
            handler = objects.DBusObjectHandler(conn)
            obj = W['Obj']('/obj')
            handler.exportObject(obj)
            verdict0, found0 = ref_dispatch('/obj', iface, member, None)
            sig = None
            if found0 is not None and member in DECL.get(found0, {}):
                sig = DECL[found0][member][0] or None
            body = {None: None, 'i': [5], 's': ['arg']}[sig]
            verdict, found = ref_dispatch('/obj', iface, member, sig)

            def one(serial):
                message.DBusMessage._nextSerial = serial
                call = message.MethodCallMessage('/obj', member, interface=iface, signature=sig, body=body)
                call.sender = SENDER
                call._marshal(False)
                msg = message.parseMessage(call.rawMessage, [])
                message.DBusMessage._nextSerial = 70 + serial
                obj.log[:] = []
                n0 = len(conn.sent)
                handler.handleMethodCallMessage(msg)
                out = [m for m in conn.sent[n0:] if m._messageType in (2, 3)]
                check(len(out) == 1 and out[0].reply_serial == serial, 'each call must get exactly one reply')
                return out[0], list(obj.log)
            r1, log1 = one(50)
            if verdict == 'run':
                check(r1._messageType == 2 and len(log1) == 1, 'an exported method must run and return')
            else:
                check(r1._messageType == 3 and log1 == [], 'a call that does not match must be refused')
            handler.unexportObject('/obj')
            r2, log2 = one(51)
            check(log2 == [], 'user code ran for an object that is not exported any more')
            check(r2._messageType == 3 and r2.error_name == 'org.freedesktop.DBus.Error.UnknownObject',
                  'a call to an unexported path must be answered UnknownObject')
            if again:
                handler.exportObject(obj)
                r3, log3 = one(52)
                check((r3._messageType, len(log3)) == (r1._messageType, len(log1)) and r3.body == r1.body,
                      'after exporting the object again the call must behave as before')
        hu.__name__ = 'unexp'
        return Spec(hu, [('code', int)], witnesses=[(encode_choice(w, usizes),) for w in
                                                   ([1, 2, 0], [0, 0, 1], [3, 1, 1], [2, 1, 0], [1, 4, 1])])

    if family == 'seq':
        SEQ_IF = [None, 'org.t.I1', 'org.t.I2', 'org.t.I0']
        SEQ_MEM = ['Who', 'Same', 'Echo', 'List1', 'Struct1', 'Pair']
        sizes = [len(SEQ_IF), len(SEQ_MEM), len(SEQ_IF), len(SEQ_MEM)]

        def h(code):
            sel = decode_choice(code, sizes)
            with notrace():
                run(sel)
            reached()

        def run(sel):
            conn = W['Conn']()
            handler = objects.DBusObjectHandler(conn)
            obj = W['Obj']('/obj')
            handler.exportObject(obj)
            conn.sent[:] = []
            for k in (0, 1):
                iface, member = SEQ_IF[sel[2 * k]], SEQ_MEM[sel[2 * k + 1]]
                verdict0, found0 = ref_dispatch('/obj', iface, member, None)
                sig = None
                if found0 is not None and member in DECL.get(found0, {}):
                    sig = DECL[found0][member][0] or None
                body = {None: None, 'i': [5 + k], 's': ['arg']}[sig]
                message.DBusMessage._nextSerial = 50 + k
                call = message.MethodCallMessage('/obj', member, interface=iface, signature=sig, body=body)
                call.sender = SENDER
                call._marshal(False)
                msg = message.parseMessage(call.rawMessage, [])
                message.DBusMessage._nextSerial = 70 + k
                obj.log[:] = []
                n0 = len(conn.sent)
                handler.handleMethodCallMessage(msg)
                replies = conn.sent[n0:]
                check(len(replies) == 1 and replies[0].reply_serial == 50 + k and replies[0].destination == SENDER,
                      'each call must get exactly one correctly addressed reply')
                verdict, found = ref_dispatch('/obj', iface, member, sig)
                r = replies[0]
                if verdict != 'run':
                    check(obj.log == [] and r._messageType == 3 and r.error_name == 'org.freedesktop.DBus.Error.' + verdict,
                          'a call that does not match must be refused without running user code')
                    continue
                x = 5 + k
                want_log = {'Who': ('Who', SENDER) if found == 'org.t.I1' else ('Who2',),
                            'Same': {'org.t.I1': ('Same1', x), 'org.t.I2': ('Same2', 'arg'), 'org.t.I0': ('Same0', x)}[found],
                            'Echo': ('Echo', x),
                            'List1': ('List1', x), 'Struct1': ('Struct1', x), 'Pair': ('Pair',)}[member]
                check(obj.log == [want_log], 'the implementation bound to the addressed interface must run once with its arguments')
                want_body = {'Who': [SENDER] if found == 'org.t.I1' else ['two'],
                             'Same': {'org.t.I1': [x], 'org.t.I2': ['arg!'], 'org.t.I0': [~x]}[found], 'Echo': [x], 'List1': [[x]],
                             'Struct1': [[x]], 'Pair': [1, 2]}[member]
                check(r._messageType == 2 and (r.signature or '') == DECL[found][member][1], 'reply kind / signature wrong')
                pr = message.parseMessage(r.rawMessage, [])
                check(pr.body == want_body, 'returned value differs from what the implementation returned')
        h.__name__ = 'seq'
        return Spec(h, [('code', int)], witnesses=[(encode_choice(w, sizes),) for w in
                                                  ([1, 0, 2, 0], [2, 0, 1, 0], [0, 1, 2, 1], [1, 3, 1, 4], [0, 0, 0, 0], [3, 1, 1, 1], [2, 1, 3, 1])])

    path, iface = PATHS[p['pi']], IFACES[p['ii']]

    def h(mi, si, S, er, x):
        assume(0 <= mi < len(MEMBERS) and 0 <= si < len(SIGS))
        assume(1 <= S < 2 ** 32)
        assume(-2 ** 31 <= x < 2 ** 31)
        member, sig = MEMBERS[mi], SIGS[si]
        message.DBusMessage._nextSerial = 1
        with notrace():
            conn = W['Conn']()
            handler = objects.DBusObjectHandler(conn)
            obj = W['Obj']('/obj')
            handler.exportObject(obj)
            conn.sent[:] = []
        body = None
        if sig == 'i':
            body = [x]
        elif sig == 's':
            body = ['arg']
        message.DBusMessage._nextSerial = S
        call = message.MethodCallMessage(path, member, interface=iface, signature=sig, body=body, expectReply=er)
        call.sender = SENDER
        call._marshal(False)
        msg = message.parseMessage(call.rawMessage, [])
        message.DBusMessage._nextSerial = 7      # the replier's own counter (wrap-around is outside the claim)
        handler.handleMethodCallMessage(msg)
        # fire Deferreds returned by the implementation, after the handler returned
        for kind, d, val in list(obj.later):
            if kind == 'ok':
                d.callback(val)
            else:
                d.errback(W['NamedErr']('late failure'))
        verdict, found = ref_dispatch(path, iface, member, sig)
        replies = conn.sent
        check(len(replies) <= 1, 'more than one reply to a call')
        for r in replies:
            check(r.reply_serial == S, 'reply does not carry the call\'s serial')
            check(r.destination == SENDER, 'reply is not addressed to the caller')
        if verdict != 'run':
            check(obj.log == [], 'user code ran although the call does not match an exported method')
            if er:
                check(len(replies) == 1, 'a call expecting a reply got none')
            if replies:
                r = replies[0]
                check(r._messageType == 3 and r.error_name == 'org.freedesktop.DBus.Error.' + verdict,
                      'wrong error reply for a call that does not match')
        else:
            check(len(obj.log) == 1, 'implementation did not run exactly once')
            tag = obj.log[0][0]
            exp_tag = member
            if member == 'Same':
                exp_tag = {'org.t.I1': 'Same1', 'org.t.I2': 'Same2', 'org.t.I0': 'Same0'}[found]
            if member == 'Who':
                exp_tag = 'Who' if found == 'org.t.I1' else 'Who2'
            check(tag == exp_tag, 'the implementation bound to another interface/member ran')
            if sig == 'i':
                check(obj.log[0][1] == x, 'implementation received a different argument')
            elif sig == 's':
                check(obj.log[0][1] == 'arg', 'implementation received a different argument')
            if member == 'Who' and found == 'org.t.I1':
                check(obj.log[0][1] == SENDER, 'dbusCaller is not the caller\'s unique name')
            if not er:
                check(len(replies) == 0, 'a no-reply call that was dispatched must not be answered')
            else:
                check(len(replies) == 1, 'a call expecting a reply got none')
                r = replies[0]
                sigout = DECL[found][member][1]
                ok_body = {'Echo': [x], 'Same': {'org.t.I1': [x], 'org.t.I2': ['arg!'], 'org.t.I0': [~x]}[found],
                           'Pair': [1, 2], 'Nothing': None,
                           'Later': [x], 'Who': [SENDER] if found == 'org.t.I1' else ['two'], 'Inherited': ['base'],
                           'List1': [[x]], 'List2': [[x, x]], 'Struct1': [[x]]}
                errs = {'Fail': ('org.txdbus.PythonException.ValueError', 'plain failure'),
                        'FailNamed': ('org.t.Err.Named', 'named failure'),
                        'FailBadName': ('org.txdbus.InvalidErrorName', None),
                        'LaterFail': ('org.t.Err.Named', 'late failure')}
                if member in ok_body:
                    check(r._messageType == 2, 'successful call answered with an error')
                    check((r.signature or '') == sigout, 'return not encoded under the declared signature')
                    pr = message.parseMessage(r.rawMessage, [])
                    if ok_body[member] is None:
                        check(not pr.body, 'void method returned a body')
                    else:
                        check(pr.body == ok_body[member], 'returned value differs from what the implementation returned')
                elif member in errs:
                    name, text = errs[member]
                    check(r._messageType == 3 and r.error_name == name, 'error reply not named by the rule')
                    if text is not None:
                        check(r.body == [text], 'error reply does not carry the exception text')
                    else:
                        check(len(r.body) == 1 and 'bad name failure' in r.body[0], 'error text lost')
                else:        # BadRet / Short / Long: value not encodable under the declared signature
                    check(r._messageType == 3, 'unencodable return value must become an error reply')
            for r in replies:
                pr = message.parseMessage(r.rawMessage, [])      # every reply must be a well-formed message
                n_types = len(split(pr.signature or ''))
                check(len(pr.body or []) == n_types, 'reply body does not have one value per complete type of its signature')
        reached()
    h.__name__ = 'call'
    wit = []
    for mi in range(len(MEMBERS)):
        for si in range(len(SIGS)):
            wit.append((mi, si, 1 + mi * 7 + si, (mi + si) % 2 == 0, [0, -2 ** 31, 2 ** 31 - 1][si]))
    return Spec(h, [('mi', int), ('si', int), ('S', int), ('er', bool), ('x', int)], witnesses=wit)
