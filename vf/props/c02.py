"""C02 - bytes are exactly the DBus wire format, both directions (vs. vf/ref_codec)."""
from ..engine import Spec, assume, check, reached
from ..runner import Ob
from .. import shapes, ref_codec
from ..ref_sig import enumerate_types, split, ALIGN
from . import c01

PROPERTY = 'C02'
FUNCS = c01.FUNCS
EXPLANATION = (
    'Bounded symbolic execution of the real marshal.marshal / marshal.unmarshal against an '
    'independent codec written from the specification (vf/ref_codec.py). enc: the bytes produced '
    'are byte-for-byte the reference encoding for ALL leaf values of a concrete shape. dec: the '
    'reference encoding of all leaf values (i.e. any conformant foreign encoding of that shape) is '
    'decoded by the real unmarshal to the encoded values, consuming exactly its length. pad: for '
    'every type code and the header, for ALL offsets >= 0 (unbounded integer) the padding emitted is '
    '(-offset mod alignment) zero bytes.')
BOUNDS = dict(c01.BOUNDS)
BOUNDS['quick'] += '; pad lemma: 18 codes, offset unbounded'
BOUNDS['thorough'] += '; pad lemma: 18 codes, offset unbounded'
ASSUMPTIONS = c01.ASSUMPTIONS + [
    'the reference codec (vf/ref_codec.py, vf/ref_sig.py) is the oracle; it is validated on every run '
    'against the byte vectors of tests/test_marshal.py (witness pass)']
STUBS = []

# byte vectors taken from upstream tests/test_marshal.py (oracle validation)
UPSTREAM = [
    ('y', [1], True, b'\x01'), ('n', [-1024], True, b'\x00\xfc'), ('n', [-1024], False, b'\xfc\x00'),
    ('q', [1024], True, b'\x00\x04'), ('i', [-1024], True, b'\x00\xfc\xff\xff'),
    ('u', [1024], True, b'\x00\x04\x00\x00'), ('b', [True], True, b'\x01\x00\x00\x00'),
    ('x', [-1024], True, b'\x00\xfc\xff\xff\xff\xff\xff\xff'),
    ('t', [1024], True, b'\x00\x04\x00\x00\x00\x00\x00\x00'),
    ('s', ['Hello World'], True, b'\x0b\x00\x00\x00Hello World\x00'),
    ('g', ['a{sv}'], True, b'\x05a{sv}\x00'),
    ('ay', [[1, 2, 3]], True, b'\x03\x00\x00\x00\x01\x02\x03'),
    ('as', [['x', 'foo']], True, b'\x10\x00\x00\x00\x01\x00\x00\x00x\x00\x00\x00\x03\x00\x00\x00foo\x00'),
    ('a(yx)', [[[1, 5]]], True, b'\x10\x00\x00\x00' + b'\0' * 4 + b'\x01' + b'\0' * 7 + b'\x05' + b'\0' * 7),
    ('(ii)', [[1, 2]], True, b'\x01\x00\x00\x00\x02\x00\x00\x00'),
    ('(yi)', [[1, 2]], True, b'\x01\x00\x00\x00\x02\x00\x00\x00'),
    ('v', [('y', 1)], True, b'\x01y\x00\x01'),
    ('v', [('(ii)', [1, 2])], True, b'\x04(ii)\x00\x00\x00\x01\x00\x00\x00\x02\x00\x00\x00'),
]


def obligations(tier):
    obs = []
    for o in c01.obligations(tier):
        for fam in ('enc', 'dec'):
            obs.append(Ob(fam + o.id[2:], fam, o.params, timeout=o.timeout, path_timeout=15,
                          twin=o.twin, functions=FUNCS, bounds=o.bounds))
    for code in list(ALIGN) + ['header']:
        obs.append(Ob('pad:' + code, 'pad', {'code': code}, timeout=60, twin=True,
                      functions=('txdbus.marshal:genpad',),
                      bounds='offset: any integer >= 0'))
    obs.append(Ob('oracle:upstream-vectors', 'oracle', {}, timeout=20, twin=False,
                  functions=(), bounds='concrete: reference codec vs upstream test vectors'))
    return obs


def build(family, p):
    from txdbus import marshal
    if family == 'pad':
        code = p['code']
        align = 8 if code == 'header' else ALIGN[code]

        def h(off):
            assume(off >= 0)
            got = marshal.pad[code](off)
            n = (-off) % align
            check(len(got) == n, 'padding length is not (-offset mod alignment)')
            check(got == b'\0' * n, 'padding bytes are not zero')
            reached()
        h.__name__ = 'pad'
        return Spec(h, [('off', int)], witnesses=[(i,) for i in range(0, 17)] + [(2 ** 40 + 3,)])
    if family == 'oracle':
        def h(k):
            assume(0 <= k < len(UPSTREAM))
            sig, vals, le, raw = UPSTREAM[k]
            from ..engine import HarnessError
            if ref_codec.encode(sig, vals, 0, le) != raw:
                raise HarnessError('reference encoder disagrees with upstream vector %r' % (sig,))
            dv, n = ref_codec.decode(sig, raw, 0, le)
            if n != len(raw):
                raise HarnessError('reference decoder length disagrees on %r' % (sig,))
            # and the real decoder on the same vector
            m, rv = marshal.unmarshal(sig, raw, 0, le)
            check(m == n and shapes.deq(rv, dv), 'unmarshal disagrees with upstream vector')
        h.__name__ = 'oracle'
        return Spec(h, [('k', int)], witnesses=[(i,) for i in range(len(UPSTREAM))])

    sig, off, le, L, form = p['sig'], p['off'], p['le'], p['L'], p['form']
    ctx = shapes.Ctx(p['seed'])
    nodes = [shapes.template(ct, L, ctx, strlen=p.get('strlen', 1)) for ct in split(sig)]
    params, kinds = shapes.leaf_params(nodes)

    def mk(args):
        it = iter(args)
        py, exp, ref = [], [], []
        for nd in nodes:
            a, b, c = shapes.instantiate(nd, it, marshal, form, False, None)
            py.append(a)
            exp.append(b)
            ref.append(c)
        return py, exp, ref

    if family == 'enc':
        def h(*args):
            shapes.assume_leaves(kinds, args, assume)
            py, exp, ref = mk(args)
            oob = []
            n, chunks = marshal.marshal(sig, py, off, le, oob)
            got = b''.join(chunks)
            want = ref_codec.encode(sig, ref, off, le)
            check(len(got) == len(want), 'encoded length differs from the wire format')
            check(n == len(want), 'reported byte count differs from the wire format')
            check(got == want, 'encoded bytes differ from the wire format')
            reached()
    else:
        def h(*args):
            shapes.assume_leaves(kinds, args, assume)
            py, exp, ref = mk(args)
            wire = b'\0' * off + ref_codec.encode(sig, ref, off, le)
            fds = [a for (k, _), a in zip(kinds, args) if k == 'fd']
            fds = _fd_list(nodes, args, kinds)
            m, vals = marshal.unmarshal(sig, wire, off, le, fds)
            check(m == len(wire) - off, 'decoder consumed a different number of bytes')
            check(shapes.deq(vals, exp), 'decoded value differs from the encoded one')
            reached()
    h.__name__ = family
    wit = [shapes.witness_values(kinds, w) for w in range(4)] if kinds else [()]
    return Spec(h, params, witnesses=wit)


def _fd_list(nodes, args, kinds):
    """fd values in encounter order (symbolic leaves and concrete 'h' keys/constants)."""
    from txdbus import marshal
    fds = []
    it = iter(args)
    for nd in nodes:
        shapes.instantiate(nd, it, marshal, 0, False, fds)
    return fds
