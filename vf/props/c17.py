"""C17 - remote property access honours declared type and access mode."""
from ..engine import Spec, assume, check, reached, HarnessError, notrace, concrete, decode_choice, encode_choice
from ..runner import Ob

PROPERTY = 'C17'
FUNCS = ('txdbus.objects:DBusProperty.__get__', 'txdbus.objects:DBusProperty.__set__',
         'txdbus.objects:DBusObject._dbus_PropertyGet', 'txdbus.objects:DBusObject._dbus_PropertySet',
         'txdbus.objects:DBusObject._dbus_PropertyGetAll', 'txdbus.objects:DBusObject.getAllProperties',
         'txdbus.objects:DBusObject._cacheInterfaces', 'txdbus.objects:DBusObject._searchCache',
         'txdbus.interface:Property.__init__', 'txdbus.objects:DBusObjectHandler.handleMethodCallMessage')
EXPLANATION = (
    'An exported class is built from a property declaration (signature x readable/writable x change-notification mode; the '
    'same property name on a second, inherited interface; a second property). A solver-chosen history of local assignments '
    'and remote Get / Set / GetAll calls (through real messages, the real parser and the real handleMethodCallMessage) '
    'is compared with a reference store: Get returns the value last assigned or successfully Set, as a '
    'variant of exactly the declared basic type; Set changes state iff writable; Get/GetAll reveal iff readable; unknown '
    'property/interface gives an error reply; GetAll returns exactly the readable properties of that interface; one '
    'PropertiesChanged signal per assignment iff the property is declared to emit.')
BOUNDS = {'quick': '12 declarations (pairwise over 4 signatures x 3 access modes x 3 emit modes); histories of 3 steps over 18 step kinds; values from pools of 3 (boundaries, empty, multi-byte)',
          'thorough': '36 declarations with histories of 3 steps; 12 declarations with histories of 4 steps'}
ASSUMPTIONS = ['values come from pools of 3 per signature (selector variables): the solver contributes exhaustive coverage of the bounded history space, not arithmetic',
               'Get with an empty interface name may answer from any interface that has the property (the statement does not fix the choice)',
               'emit mode "invalidates" may emit nothing (the statement only fixes true / false)']
STUBS = ['recording connection object (sendMessage)']

SIGS = ['y', 'i', 's', 'as']
ACCESS = [(True, False), (False, True), (True, True)]      # (readable, writeable)
EMITS = [True, False, 'invalidates']
IA, IB, PROPS = 'org.t.PA', 'org.t.PB', 'org.freedesktop.DBus.Properties'
IC = 'org.t.P'          # IC + 'AP' and IA + 'P' concatenate to the same text
NSTEPS = 20        # 0-2 assign value 0..2, 3-5 remote Set value 0..2, 6.. the other step kinds (16, 17: third interface;
                   # 18, 19: assignment of a plain value / of a value wrapped in another integer type)


def _decls(tier):
    out = []
    for si in range(4):
        for ai in range(3):
            for ei in range(3):
                if tier == 'quick' and (si + ai + ei) % 3 != 0:
                    continue
                out.append((si, ai, ei))
    return out


def obligations(tier):
    obs = []
    plans = [('quick', 3)] if tier == 'quick' else [('thorough', 3), ('quick', 4)]
    for (dtier, k) in plans:
        for (si, ai, ei) in _decls(dtier):
            firsts = [None] if k <= 2 else list(range(NSTEPS))
            for first in firsts:
                obs.append(Ob('hist:%s:%s:%s:k%d:first%s' % (SIGS[si], 'r' * ACCESS[ai][0] + 'w' * ACCESS[ai][1], EMITS[ei], k, first),
                              'hist', {'si': si, 'ai': ai, 'ei': ei, 'k': k, 'first': first}, timeout=1800, path_timeout=60,
                              twin=(first is None or (first == 0 and len(obs) % 3 == 0)), functions=FUNCS,
                              bounds='%d steps (symbolic selector over %d step kinds), values from pools of 3' % (k, NSTEPS)))
    return obs


_classes = {}


def _mk_class(si, ai, ei):
    key = (si, ai, ei)
    if key in _classes:
        return _classes[key]
    from txdbus import objects
    from txdbus.interface import DBusInterface, Method, Property, Signal
    r, w = ACCESS[ai]
    A = DBusInterface(IA, Property('P', SIGS[si], readable=r, writeable=w, emitsOnChange=EMITS[ei]),
                      Property('Q', 's', readable=True, writeable=False, emitsOnChange=False), noRegister=True)
    B = DBusInterface(IB, Property('P', 'i', readable=True, writeable=True, emitsOnChange=True), noRegister=True)

    C = DBusInterface(IC, Property('AP', 'i', readable=True, writeable=True, emitsOnChange=False), noRegister=True)

    class Base(objects.DBusObject):
        dbusInterfaces = [B, C]
        pb = objects.DBusProperty('P', IB)
        ap = objects.DBusProperty('AP', IC)

    class Obj(Base):
        dbusInterfaces = [A]
        p = objects.DBusProperty('P', IA)
        q = objects.DBusProperty('Q', IA)

        def __init__(self, path):
            Base.__init__(self, path)
            # properties are assigned before the object is exported (no handler yet: nothing is emitted)
            self.p = {'y': 1, 'i': 1, 's': 'init', 'as': ['init']}[SIGS[si]]
            self.pb = 0
            self.ap = 77
            self.q = 'qv'

    class Conn:
        def __init__(self):
            self.sent = []

        def sendMessage(self, m):
            self.sent.append(m)
    # warm the caches
    c = Conn()
    h = objects.DBusObjectHandler(c)
    o = Obj('/warm')
    h.exportObject(o)
    o.getAllProperties(IA)
    o.getAllProperties(IB)
    _classes[key] = (Obj, Conn)
    return _classes[key]


def build(family, p):
    from txdbus import objects, message, marshal
    si, ai, ei, k = p['si'], p['ai'], p['ei'], p['k']
    sig = SIGS[si]
    readable, writeable = ACCESS[ai]
    emits = EMITS[ei]
    Obj, Conn = _mk_class(si, ai, ei)
    vtype = {'y': int, 'i': int, 's': str, 'as': str}[sig]

    def wrap(v):
        """value of the declared type, as a user would pass it in a variant"""
        if sig == 'y':
            return marshal.Byte(v)
        if sig == 'i':
            return marshal.Int32(v)
        if sig == 's':
            return v
        return [v]

    def plain(v):
        return [v] if sig == 'as' else v

    VPOOL = {'y': [0, 255, 7], 'i': [-2 ** 31, 2 ** 31 - 1, 0], 's': ['', 'a', '\u00e9x'], 'as': ['', 'b', '\u20ac']}[sig]

    first = p.get('first')
    nfree = k if first is None else k - 1

    def h(code):
        raw = decode_choice(code, [NSTEPS] * nfree)       # one path per history; the run below is concrete
        if first is not None:
            raw = [first] + raw
        steps, vals = [], []
        for s in raw:
            if s < 3:
                steps.append(0)
                vals.append(VPOOL[s])
            elif s < 6:
                steps.append(1)
                vals.append(VPOOL[s - 3])
            elif s < 16:
                steps.append(s - 4)
                vals.append(VPOOL[0])
            elif s < 18:
                steps.append(s - 4)          # 12, 13: third interface
                vals.append(VPOOL[0])
            else:
                steps.append(s - 4)          # 14: plain value, 15: value carrying another wrapper type
                vals.append(VPOOL[2 if s == 18 else 1])
        message.DBusMessage._nextSerial = 1
        with notrace():
            run(steps, vals)
        reached()

    def run(steps, vals):
        conn = Conn()
        handler = objects.DBusObjectHandler(conn)
        obj = Obj('/o')
        handler.exportObject(obj)
        conn.sent[:] = []
        store = {(IA, 'P'): {'y': 1, 'i': 1, 's': 'init', 'as': ['init']}[sig], (IB, 'P'): 0, (IA, 'Q'): 'qv', (IC, 'AP'): 77}

        def remote(member, sigin, body):
            message.DBusMessage._nextSerial = 300
            call = message.MethodCallMessage('/o', member, interface=PROPS, signature=sigin, body=body)
            call.sender = ':1.2'
            call._marshal(False)
            msg = message.parseMessage(call.rawMessage, [])
            n0 = len(conn.sent)
            message.DBusMessage._nextSerial = 400
            handler.handleMethodCallMessage(msg)
            out = conn.sent[n0:]
            replies = [m for m in out if m._messageType in (2, 3)]
            signals = [m for m in out if m._messageType == 4]
            check(len(replies) == 1, 'a property call must get exactly one reply')
            return replies[0], signals

        def expect_signals(signals, iface, name, value, declared_emits):
            if declared_emits is True:
                check(len(signals) == 1, 'assigning an emitting property must emit one PropertiesChanged')
                s = signals[0]
                check(s.member == 'PropertiesChanged' and s.interface == PROPS and s.path == '/o', 'wrong signal emitted')
                ps = message.parseMessage(s.rawMessage, [])
                check(ps.body[0] == iface and ps.body[1] == {name: value}, 'PropertiesChanged must name interface, property, value')
            elif declared_emits is False:
                check(len(signals) == 0, 'assigning a non-emitting property must emit nothing')
            else:
                check(len(signals) <= 1, 'at most one signal per assignment')

        for j, st in enumerate(steps):
            v = vals[j]
            if st in (0, 14, 15):                         # local assignment of IA.P
                n0 = len(conn.sent)
                if st == 0:
                    obj.p = wrap(v)
                elif st == 14 or sig not in ('y', 'i'):
                    obj.p = plain(v)                      # a plain Python value of the declared type
                else:
                    obj.p = marshal.UInt32(v) if sig == 'y' else marshal.Int64(v)      # in range, other integer wrapper
                store[(IA, 'P')] = plain(v)
                expect_signals([m for m in conn.sent[n0:] if m._messageType == 4], IA, 'P', plain(v), emits)
            elif st == 1:                                 # remote Set IA.P
                r, sg = remote('Set', 'ssv', [IA, 'P', wrap(v)])
                if writeable:
                    check(r._messageType == 2, 'Set on a writable property must succeed')
                    store[(IA, 'P')] = plain(v)
                    expect_signals(sg, IA, 'P', plain(v), emits)
                else:
                    check(r._messageType == 3, 'Set on a property that is not writable must fail')
                    check(len(sg) == 0, 'failed Set must not emit')
            elif st in (2, 3):                            # Get IA.P  /  Get ''.P
                r, sg = remote('Get', 'ss', [IA if st == 2 else '', 'P'])
                check(len(sg) == 0, 'Get must not emit')
                if st == 2:
                    if readable:
                        check(r._messageType == 2 and r.signature == 'v', 'Get on a readable property must succeed')
                        pr = message.parseMessage(r.rawMessage, [])
                        if store[(IA, 'P')] is not None:
                            check(pr.body == [store[(IA, 'P')]], 'Get must return the value last assigned or Set')
                            if sig in ('y', 'i', 's'):
                                raw = r.rawBody
                                check(raw[0] == 1 and raw[1] == ord(sig), 'Get must return a variant of exactly the declared type')
                    else:
                        check(r._messageType == 3, 'Get on a property that is not readable must fail')
                else:
                    if r._messageType == 2:
                        pr = message.parseMessage(r.rawMessage, [])
                        ok = (readable and pr.body == [store[(IA, 'P')]]) or pr.body == [store[(IB, 'P')]] \
                            or store[(IA, 'P')] is None or store[(IB, 'P')] is None
                        check(ok, 'Get without interface returned a value no interface holds')
            elif st == 4:
                r, sg = remote('Get', 'ss', [IA, 'Nope'])
                check(r._messageType == 3 and not sg, 'Get of an unknown property must fail')
            elif st == 5:
                r, sg = remote('Get', 'ss', ['org.t.Nope', 'P'])
                check(r._messageType == 3 and not sg, 'Get on an unknown interface must fail')
            elif st in (6, 7):
                iface = IA if st == 6 else IB
                r, sg = remote('GetAll', 's', [iface])
                check(r._messageType == 2 and r.signature == 'a{sv}' and not sg, 'GetAll must succeed')
                pr = message.parseMessage(r.rawMessage, [])
                got = pr.body[0]
                if iface == IA:
                    want_keys = ['Q'] + (['P'] if readable else [])
                else:
                    want_keys = ['P']
                check(sorted(got.keys()) == sorted(want_keys), 'GetAll must return exactly the readable properties of the interface')
                for kk in want_keys:
                    if store[(iface, kk)] is not None:
                        check(got[kk] == store[(iface, kk)], 'GetAll value differs from the value last assigned')
                if iface == IA and readable and sig in ('y', 'i', 's'):
                    from .. import ref_codec
                    vals_, _n = ref_codec.decode('a{sv}', r.rawBody, 0, True, keep_vsig=True)
                    entries = vals_[0].items() if isinstance(vals_[0], dict) else vals_[0]
                    for key_, var_ in entries:
                        if key_ == 'P':
                            check(var_[0] == sig, 'GetAll must return a variant of exactly the declared type')
            elif st == 8:                                 # Set IB.P (int32, read-write, emitting)
                r, sg = remote('Set', 'ssv', [IB, 'P', marshal.Int32(7 + j)])
                check(r._messageType == 2, 'Set on the second interface must succeed')
                store[(IB, 'P')] = 7 + j
                expect_signals(sg, IB, 'P', 7 + j, True)
            elif st == 9:
                r, sg = remote('Get', 'ss', [IB, 'P'])
                check(r._messageType == 2 and not sg, 'Get on the second interface must succeed')
                if store[(IB, 'P')] is not None:
                    pr = message.parseMessage(r.rawMessage, [])
                    check(pr.body == [store[(IB, 'P')]], 'same-named property on another interface must keep its own value')
            elif st == 10:                                # local assignment on the inherited interface
                n0 = len(conn.sent)
                obj.pb = 40 + j
                store[(IB, 'P')] = 40 + j
                expect_signals([m for m in conn.sent[n0:] if m._messageType == 4], IB, 'P', 40 + j, True)
            elif st == 12:                                # assign the property of the third interface
                n0 = len(conn.sent)
                obj.ap = 500 + j
                store[(IC, 'AP')] = 500 + j
                expect_signals([m for m in conn.sent[n0:] if m._messageType == 4], IC, 'AP', 500 + j, False)
            elif st == 13:
                r, sg = remote('Get', 'ss', [IC, 'AP'])
                check(r._messageType == 2 and not sg, 'Get on the third interface must succeed')
                pr = message.parseMessage(r.rawMessage, [])
                check(pr.body == [store[(IC, 'AP')]], 'a property of another interface must keep its own value')
            else:                                         # Set with a wrong property name
                r, sg = remote('Set', 'ssv', [IA, 'Nope', wrap(v)])
                check(r._messageType == 3 and not sg, 'Set of an unknown property must fail')
    h.__name__ = 'hist'
    wit = []
    for a in range(NSTEPS):
        w = [a] + [(a * 5 + 2) % NSTEPS] * (k - 1)
        wit.append((encode_choice(w[:nfree], [NSTEPS] * nfree),))
    return Spec(h, [('code', int)], witnesses=wit)
