"""C11 - a call through a proxy reaches the remote method and returns what it returned."""
from ..engine import Spec, assume, check, reached, HarnessError, notrace, concrete, decode_choice, encode_choice
from ..runner import Ob
from ..fakes import FakeTransport, install_clock_reactor, fresh_clock

PROPERTY = 'C11'
FUNCS = ('txdbus.objects:RemoteDBusObject.callRemote', 'txdbus.objects:DBusObjectHandler.getRemoteObject',
         'txdbus.objects:DBusObjectHandler.handleMethodCallMessage', 'txdbus.client:DBusClientConnection.callRemote',
         'txdbus.client:DBusClientConnection.introspectRemoteObject', 'txdbus.client:DBusClientConnection.methodReturnReceived',
         'txdbus.client:DBusClientConnection.errorReceived', 'txdbus.bus:BusProtocol.rawDBusMessageReceived',
         'txdbus.bus:Bus.messageReceived', 'txdbus.bus:Bus.sendMessage', 'txdbus.introspection:getInterfacesFromXML',
         'txdbus.protocol:BasicDBusProtocol.dataReceived')
EXPLANATION = (
    'Two or three real DBusClientConnections are joined to one real Bus through real BusProtocols and in-memory byte '
    'pipes (Hello, export, proxy creation - with an explicit DBusInterface or by real introspection - run concretely). '
    'values: a proxy call with SYMBOLIC arguments (two int32 / one byte and one unicode character) travels caller -> bus -> '
    'exporter -> bus -> caller (four encode/decode hops) and must run the method once with equal arguments and complete with '
    'the equal value, or with a RemoteError mirroring the raised exception. sched: one or two concurrent calls under every '
    'delivery schedule up to the bound (which link delivers next, whole or cut after 1 / 16 bytes), selector-driven.')
BOUNDS = {'quick': 'values: 2 clients, 1 call, 9 method shapes (incl. one member name on two interfaces) x 2 proxy kinds; sched: 2-3 clients, 1-2 concurrent calls, first 5 scheduling decisions free (6 options each)',
          'thorough': 'sched: first 6 scheduling decisions free'}
ASSUMPTIONS = ['"any number of clients / every interleaving" is cut to 2-3 clients and the first 5-6 scheduling decisions (later ones: first pending link, whole)',
               'authentication is skipped on both sides (C06/C07)', 'argument values beyond int32 / byte / one character are covered per hop by C01-C03']
STUBS = ['in-memory pipes between FakeTransports', 'task.Clock as reactor']


def obligations(tier):
    obs = []
    for kind in ('swap', 'mixed', 'raise', 'void', 'list1', 'struct1', 'list2', 'overload', 'overload-kw', 'overload-seq'):
        for intro in (False, True):
            obs.append(Ob('values:%s:%s' % (kind, 'introspected' if intro else 'explicit'), 'values',
                          {'kind': kind, 'intro': intro}, timeout=900, path_timeout=120, twin=True, functions=FUNCS,
                          bounds='arguments symbolic; default delivery schedule'))
    S = 5 if tier == 'quick' else 6
    for scen in ('one', 'two-same', 'two-callers'):
        for first in range(6):
            obs.append(Ob('sched:%s:first%d' % (scen, first), 'sched', {'scen': scen, 'S': S, 'first': first}, timeout=1800,
                          path_timeout=120, twin=(first == 0), functions=FUNCS,
                          bounds='%d free scheduling decisions (first fixed), 6 options each' % S, weight=0.7))
    return obs


class Net:
    """Real bus + real clients joined by byte pipes."""

    def __init__(self, busmod, client, message):
        self.busmod, self.client, self.message = busmod, client, message
        self.bus = busmod.Bus()

        class Fac:
            bus = self.bus
        self.fac = Fac
        self.links = []        # [client_proto, bus_proto]

    def add_client(self):
        bp = self.busmod.BusProtocol()
        bp.factory = self.fac
        bp.transport = FakeTransport()
        bp._receivedFDs = []
        bp._authenticated = True
        bp.connectionAuthenticated()
        cf = self.client.DBusClientFactory()
        cp = cf.buildProtocol(None)
        cp.transport = FakeTransport()
        cp._receivedFDs = []
        cp._authenticated = True
        self.links.append([cp, bp])
        res = []
        cf.getConnection().addCallback(res.append)
        cp.connectionAuthenticated()
        self.pump()
        check(res == [cp] and cp.busName is not None, 'client did not get on the bus')
        return cp

    def pending(self):
        out = []
        for i, (cp, bp) in enumerate(self.links):
            if cp.transport.written:
                out.append((i, 0))
            if bp.transport.written:
                out.append((i, 1))
        return out

    def deliver(self, li, direction, cut):
        cp, bp = self.links[li]
        src, dst = (cp, bp) if direction == 0 else (bp, cp)
        data = b''.join(bytes(w) for w in src.transport.written)
        src.transport.clear()
        n = len(data)
        k = n if cut == 0 else (1 if cut == 1 else 16)
        if k < n:
            src.transport.written.append(data[k:])
            data = data[:k]
        dst.dataReceived(data)

    def pump(self, choices=()):
        choices = list(choices)
        for _ in range(400):
            pend = self.pending()
            if not pend:
                return
            if choices:
                c = choices.pop(0)
                li, direction = pend[(c // 3) % len(pend)]
                cut = c % 3
            else:
                (li, direction), cut = pend[0], 0
            self.deliver(li, direction, cut)
        raise HarnessError('network did not become quiet')


_cls = {}


def _mk_exported():
    if _cls:
        return _cls['E'], _cls['I']
    from txdbus import objects
    from txdbus.interface import DBusInterface, Method
    I = DBusInterface('org.t.Calc', Method('Swap', 'ii', 'ii'), Method('Mixed', 'ys', 'sy'), Method('Boom', 'i', 'i'),
                      Method('Void', '', ''), Method('Tag', 's', 's'), Method('One', 'i', 'ai'),
                      Method('Wrap', 'i', '(i)'), Method('Two', 'ii', 'ai'))

    I2 = DBusInterface('org.t.Calc2', Method('Tag', 's', 's'), Method('Only2', 'i', 'i'))

    class E(objects.DBusObject):
        dbusInterfaces = [I, I2]

        @objects.dbusMethod('org.t.Calc2', 'Tag')
        def tag_two(self, s):
            self.log.append(('Tag2', s))
            return 'two:' + s

        def dbus_Only2(self, a):
            self.log.append(('Only2', a))
            return a

        def __init__(self, path):
            objects.DBusObject.__init__(self, path)
            self.log = []

        def dbus_Swap(self, a, b):
            self.log.append(('Swap', a, b))
            return (b, a)

        def dbus_Mixed(self, y, s):
            self.log.append(('Mixed', y, s))
            return (s, y)

        def dbus_Boom(self, a):
            self.log.append(('Boom', a))
            raise ValueError('boom')

        def dbus_Void(self):
            self.log.append(('Void',))

        def dbus_One(self, a):
            self.log.append(('One', a))
            return [a]

        def dbus_Wrap(self, a):
            self.log.append(('Wrap', a))
            return (a,)

        def dbus_Two(self, a, b):
            self.log.append(('Two', a, b))
            return [a, b]

        @objects.dbusMethod('org.t.Calc', 'Tag')
        def dbus_Tag(self, s):
            self.log.append(('Tag', s))
            return 'tag:' + s
    _cls.update(E=E, I=I, I2=I2)
    return E, I


def build(family, p):
    install_clock_reactor()
    from txdbus import bus as busmod, client, message, error, objects
    from txdbus.interface import DBusInterface
    E, I = _mk_exported()

    def world(nclients, intro, ifaces=None):
        fresh_clock()
        message.DBusMessage._nextSerial = 1
        net = Net(busmod, client, message)
        cl = [net.add_client() for _ in range(nclients)]
        exp = cl[-1]
        obj = E('/calc')
        exp.exportObject(obj)
        net.pump()
        proxies = []
        for c in cl[:-1]:
            res = []
            if intro:
                saved = dict(DBusInterface.knownInterfaces)
                DBusInterface.knownInterfaces.pop('org.t.Calc', None)
                try:
                    d = c.getRemoteObject(exp.busName, '/calc')
                    d.addCallbacks(res.append, res.append)
                    net.pump()
                finally:
                    DBusInterface.knownInterfaces.clear()
                    DBusInterface.knownInterfaces.update(saved)
            else:
                c.getRemoteObject(exp.busName, '/calc', ifaces if ifaces is not None else I).addCallbacks(res.append, res.append)
                net.pump()
            check(len(res) == 1 and isinstance(res[0], objects.RemoteDBusObject), 'no proxy for the exported object')
            proxies.append(res[0])
        obj.log[:] = []
        return net, cl, obj, proxies

    if family == 'values':
        kind, intro = p['kind'], p['intro']

        if kind in ('overload', 'overload-kw', 'overload-seq'):
            params = [('a', int), ('b', str)]
        elif kind in ('swap', 'raise'):
            params = [('a', int), ('b', int)]
        elif kind == 'mixed':
            params = [('a', int), ('b', str)]
        else:
            params = [('a', int), ('b', int)]

        SEQ_IF = [None, 'org.t.Calc', 'org.t.Calc2']

        def h_seq(a, b):
            # three calls of the shared member through ONE proxy; each names no interface, the first or the second
            sel = decode_choice(a, [3, 3, 3])
            with notrace():
                run_seq(sel, 'x\u20ac')
            reached()

        def run_seq(sel, b):
            net, cl, obj, proxies = world(2, intro, [_cls['I'], _cls['I2']])
            message.DBusMessage._nextSerial = 5000
            px = proxies[0]
            for k in sel:
                out = []
                obj.log[:] = []
                if SEQ_IF[k] is None:
                    d = px.callRemote('Tag', b)
                else:
                    d = px.callRemote('Tag', b, interface=SEQ_IF[k])
                d.addCallbacks(lambda v: out.append(('ok', v)), lambda f: out.append(('err', f.value)))
                net.pump()
                second = SEQ_IF[k] == 'org.t.Calc2'      # no interface named: the first one that has the member
                check(len(out) == 1 and len(obj.log) == 1, 'the call did not run and complete exactly once')
                check(obj.log[0] == (('Tag2', b) if second else ('Tag', b)),
                      'an earlier call through the same proxy changed which interface a call is sent to')
                check(out[0] == ('ok', ('two:' if second else 'tag:') + b), 'caller did not receive what the chosen method returned')
        h_seq.__name__ = 'values'
        if kind == 'overload-seq':
            return Spec(h_seq, params, witnesses=[(0, 'a'), (26, '€'), (2 * 9 + 0 * 3 + 0, 'x'), (1 * 9 + 2 * 3 + 0, 'y')])

        def h(a, b):
            if kind in ('mixed', 'overload', 'overload-kw'):
                assume(0 <= a <= 255)
                assume(len(b) == 1 and ord(b[0]) != 0 and not (0xD800 <= ord(b[0]) <= 0xDFFF))
            else:
                assume(-2 ** 31 <= a < 2 ** 31 and -2 ** 31 <= b < 2 ** 31)
            with notrace():
                if kind == 'overload':
                    # the proxy knows the second interface only (explicit), or both in the exporter's order (introspected)
                    net, cl, obj, proxies = world(2, intro, [_cls['I2']])
                elif kind == 'overload-kw':
                    net, cl, obj, proxies = world(2, intro, [_cls['I'], _cls['I2']])
                else:
                    net, cl, obj, proxies = world(2, intro)
                message.DBusMessage._nextSerial = 5000
            px = proxies[0]
            out = []
            if kind == 'overload':
                d = px.callRemote('Tag', b)
            elif kind == 'overload-kw':
                d = px.callRemote('Tag', b, interface='org.t.Calc2')
            elif kind == 'swap':
                d = px.callRemote('Swap', a, b)
            elif kind == 'mixed':
                d = px.callRemote('Mixed', a, b)
            elif kind == 'raise':
                d = px.callRemote('Boom', a)
            elif kind == 'list1':
                d = px.callRemote('One', a)
            elif kind == 'struct1':
                d = px.callRemote('Wrap', a)
            elif kind == 'list2':
                d = px.callRemote('Two', a, b)
            else:
                d = px.callRemote('Void')
            d.addCallbacks(lambda v: out.append(('ok', v)), lambda f: out.append(('err', f.value)))
            net.pump()
            check(len(out) == 1, 'the call did not complete exactly once')
            check(len(obj.log) == 1, 'the remote method did not run exactly once')
            if kind in ('overload', 'overload-kw'):
                second = (kind == 'overload-kw') or (not intro)
                check(obj.log[0] == (('Tag2', b) if second else ('Tag', b)),
                      'the method of another interface ran (the proxy chose one interface, the exporter another)')
                check(out[0] == ('ok', ('two:' if second else 'tag:') + b), 'caller did not receive what the chosen method returned')
            elif kind == 'swap':
                check(obj.log[0] == ('Swap', a, b), 'method ran with different arguments')
                check(out[0][0] == 'ok' and out[0][1] == [b, a], 'caller did not receive what the method returned')
            elif kind == 'mixed':
                check(obj.log[0] == ('Mixed', a, b), 'method ran with different arguments')
                check(out[0][0] == 'ok' and out[0][1] == [b, a], 'caller did not receive what the method returned')
            elif kind == 'raise':
                check(obj.log[0] == ('Boom', a), 'method ran with different arguments')
                e = out[0][1]
                check(out[0][0] == 'err' and isinstance(e, error.RemoteError)
                      and e.errName == 'org.txdbus.PythonException.ValueError' and e.message == 'boom',
                      'caller did not receive a RemoteError mirroring the exception')
            elif kind == 'list1':
                check(obj.log[0] == ('One', a), 'method ran with different arguments')
                check(out[0][0] == 'ok' and out[0][1] == [a], 'a one-element array result must arrive as that array')
            elif kind == 'struct1':
                check(obj.log[0] == ('Wrap', a), 'method ran with different arguments')
                check(out[0][0] == 'ok' and out[0][1] == [[a]], 'a one-field struct result must arrive as the list of values')
            elif kind == 'list2':
                check(obj.log[0] == ('Two', a, b), 'method ran with different arguments')
                check(out[0][0] == 'ok' and out[0][1] == [a, b], 'a two-element array result must arrive as that array')
            else:
                check(out[0] == ('ok', None), 'void method must complete with None')
            reached()
        h.__name__ = 'values'
        if kind in ('mixed', 'overload', 'overload-kw'):
            wit = [(0, 'a'), (255, '€'), (7, '\U0001f600')]
        else:
            wit = [(0, 0), (-2 ** 31, 2 ** 31 - 1), (0x0d0a, 0x0a0d0a0d)]
        return Spec(h, params, witnesses=wit)

    scen, S, first = p['scen'], p['S'], p['first']

    def h(code):
        ch = [first] + decode_choice(code, [6] * (S - 1))
        with notrace():
            run(ch)
        reached()

    def run(ch):
        nclients = 3 if scen == 'two-callers' else 2
        net, cl, obj, proxies = world(nclients, False)
        message.DBusMessage._nextSerial = 5000
        outs = []

        def start(px, tag):
            out = []
            px.callRemote('Tag', tag).addCallbacks(lambda v: out.append(('ok', v)), lambda f: out.append(('err', f.value)))
            outs.append((tag, out))
        start(proxies[0], 'c1')
        if scen == 'two-same':
            start(proxies[0], 'c2')
        elif scen == 'two-callers':
            start(proxies[1], 'c2')
        net.pump(ch)
        ran = sorted(e[1] for e in obj.log)
        check(ran == sorted(t for t, _ in outs), 'each call must run the method exactly once with its own argument')
        for tag, out in outs:
            check(out == [('ok', 'tag:' + tag)], 'each caller must receive the value returned for its own call')
    h.__name__ = 'sched'
    sizes = [6] * (S - 1)
    wit = [(encode_choice([(i * 5 + j) % 6 for j in range(S - 1)], sizes),) for i in range(4)]
    return Spec(h, [('code', int)], witnesses=wit)
