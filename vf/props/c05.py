"""C05 - malformed or hostile message bytes are rejected in bounded work."""
from typing import Tuple

from ..engine import Spec, assume, check, reached, HarnessError, mkbytes, Violation, decode_choice, notrace
from ..runner import Ob

PROPERTY = 'C05'
FUNCS = ('txdbus.marshal:unmarshal', 'txdbus.marshal:unmarshal_array', 'txdbus.marshal:unmarshal_variant',
         'txdbus.marshal:unmarshal_string', 'txdbus.marshal:unmarshal_signature',
         'txdbus.marshal:genCompleteTypes', 'txdbus.message:parseMessage')
EXPLANATION = (
    'Decoder work is counted by wrapping (from the harness) every entry of marshal.unmarshallers and the '
    'pieces yielded by marshal.genCompleteTypes; exceeding 4*(len(data)+1)*(len(signature)+1)+64 steps is the '
    'violation, any Exception or a normal return is fine. unm: unmarshal(sig, data) for a grammar-directed hostile '
    'signature family with data = N fully SYMBOLIC bytes (every lying length field, every truncation of that '
    'size). gct: genCompleteTypes on a symbolic arbitrary string. mut: real parseMessage on valid base messages '
    'with one byte (position enumerated) replaced by a SYMBOLIC value; trunc: every truncation length (symbolic).')
BOUNDS = {
    'quick': 'unm: 38 hostile signatures x 10 symbolic data bytes (7 for signature-typed), little-endian, 14 of them also big-endian; var: 12 hostile variant signatures x 6 symbolic bytes; '
             'gct: strings of length <= 3 over all characters; mut: 2 base messages (every byte position); trunc: 5 base messages',
    'thorough': 'unm: x 14 bytes and both byte orders; gct: length <= 5; mut: 5 base messages incl. big-endian',
}
ASSUMPTIONS = [
    'work = decoder steps (unmarshaller invocations + complete types yielded), not CPU time',
    'inputs longer than 8/12 bytes (unm) are outside the claim; hostile signatures inside variants come from the '
    'enumerated family (a fully symbolic variant signature does not finish)',
    'a concrete hang is detected by the wall-clock guard of the witness pass; under symbolic execution a hang is '
    'reported as inconclusive, never as success',
]
STUBS = ['marshal.unmarshallers[*] and marshal.genCompleteTypes wrapped with step counters (harness side)']

HOSTILE = ['a()', 'a{}', 'a(())', 'aa()', 'a(a())', 'ay', 'aay', 'aaay', 'aaaaaaaay', 'as', 'aas', 'ag', 'av', 'aav',
           'a(y)', 'a(ay)', 'a{yv}', 'a{sv}', 'a{yay}', '(i', 'a{i', 'a', 'aa', 'a(', '(', ')', '}', '{', 'z', 'ai)',
           'v', 'vv', '(v)', 'a(v)', 's', 'g', 'o', 'ax', 'a(x)', 'at', 'ad', 'ab', 'ah', 'a(iii)', 'yyyyuua(yv)',
           '(' * 20 + 'y' + ')' * 20, 'a' * 30 + 'y', 'a(' * 10 + 'y' + ')' * 10]
# long signatures (up to the 255 limit): the splitter's work must stay proportional to the signature, whatever
# the number of arrays / containers in a row or the nesting depth
LONG_SIGS = ['ay' * 24, 'ay' * 127, 'aay' * 80, 'a(y)' * 60, '(ay)' * 60, 'a{yv}' * 40, '(yay)' * 50, 'a(ay)' * 50,
             'a' * 31 + 'y', 'a' * 32 + 'y', 'a' * 254 + 'y', 'a' * 255, '(' * 32 + 'y' + ')' * 32, '(' * 127 + ')' * 127,
             '(' * 255, 'y' * 255, 'a{y' * 30 + 'y' + '}' * 30, 'a{sa{sa{sa{say}}}}' * 10, 'a(a(a(a(y))))' * 15,
             'as' * 100, 'ag' * 100, 'aai' * 85]
VARIANT_SIGS = ['a()', 'a{}', 'aay', '(', '', 'a', 'ay', 'a(y)', 'z', 'a(())', 'yy', 'ai']


LENS_CASES = [('as', [['abc', 'de']]), ('as', [['abc', 'de', 'f']]), ('aas', [[['ab'], ['c']]]), ('a(s)', [[['abc'], ['d']]]),
              ('a(ss)', [[['k', 'vv'], ['l', 'w']]]), ('say', ['abc', [1, 2, 3]]), ('a(ys)', [[[1, 'ab'], [2, 'c']]]), ('ao', [['/a', '/bc']])]


def length_fields(sig, values, little):
    """(wire bytes, offsets of the 4-byte length fields) of the reference encoding."""
    from ..ref_sig import ALIGN, split, fields, INT_SIZE
    from .. import ref_codec
    offs = []

    def walk(ct, v, off):
        c = ct[0]
        off += (-off) % ALIGN[c]
        if c in INT_SIZE:
            return off + INT_SIZE[c]
        if c in 'bh':
            return off + 4
        if c == 'd':
            return off + 8
        if c in 'so':
            offs.append(off)
            return off + 4 + len(v.encode('utf-8')) + 1
        if c == 'g':
            return off + 1 + len(v) + 1
        if c == 'a':
            offs.append(off)
            off += 4
            et = ct[1:]
            off += (-off) % ALIGN[et[0]]
            items = list(v.items()) if isinstance(v, dict) else list(v)
            for it in items:
                off = walk(et, it, off)
            return off
        if c in '({':
            for ft, fv in zip(fields(ct), v):
                off = walk(ft, fv, off)
            return off
        raise ValueError(ct)
    off = 0
    for ct, v in zip(split(sig), values):
        off = walk(ct, v, off)
    wire = ref_codec.encode(sig, values, 0, little)
    assert len(wire) == off
    return wire, offs


class Budget(Exception):
    pass


class Counter:
    def __init__(self, marshal, limit):
        self.marshal, self.limit, self.n = marshal, limit, 0
        self.saved = dict(marshal.unmarshallers)
        self.saved_gct = marshal.genCompleteTypes

    def __enter__(self):
        m = self.marshal

        def wrap(fn):
            def w(*a, **k):
                self.n += 1
                if self.n > self.limit:
                    raise Budget()
                return fn(*a, **k)
            return w
        for k, fn in self.saved.items():
            m.unmarshallers[k] = wrap(fn)
        orig = self.saved_gct

        def gct(sig):
            for ct in orig(sig):
                self.n += 1
                if self.n > self.limit:
                    raise Budget()
                yield ct
        m.genCompleteTypes = gct
        return self

    def __exit__(self, *a):
        for k, fn in self.saved.items():
            self.marshal.unmarshallers[k] = fn
        self.marshal.genCompleteTypes = self.saved_gct
        return False


def limit(ndata, nsig):
    return 4 * (ndata + 1) * (nsig + 1) + 64


def base_messages():
    from txdbus import message
    from .. import ref_msg
    message.DBusMessage._nextSerial = 258
    out = []
    m = message.MethodCallMessage('/a', 'F', destination='o.b', signature='say', body=['h\u00e9', [1, 2]])
    out.append(('small-call-le', m.rawMessage))
    m = message.MethodCallMessage('/org/a', 'Frob', interface='org.a.I', destination='org.b', signature='sayv(ii)',
                                  body=['hé', [1, 2, 3], 'x', [7, 8]])
    out.append(('call-le', m.rawMessage))
    out.append(('signal-be', ref_msg.encode(4, 0, 77, [(1, 'o', '/x'), (2, 's', 'org.x.Y'), (3, 's', 'Sig'),
                                                         (8, 'g', 'a{sv}as')],
                                            'a{sv}as', [[['k', ['u', 5]]], ['a', 'bc']], little=False)))
    m = message.ErrorMessage('org.a.Err', 9, destination=':1.2', signature='s', body=['boom'])
    out.append(('error-le', m.rawMessage))
    m = message.MethodReturnMessage(9, body=[[[1, 'a'], [2, 'b']]], signature='a(ys)', destination=':1.2')
    out.append(('return-le', m.rawMessage))
    return out


def obligations(tier):
    obs = []
    nbytes = 10 if tier == 'quick' else 14
    orders = [True] if tier == 'quick' else [True, False]
    BE_QUICK = {'as', 'aas', 's', 'ay', 'aay', 'ai', 'a(y)', 'a{sv}', 'a{yay}', 'ag', 'a()', 'ax', 'o', 'a(ay)'}
    for i, sig in enumerate(HOSTILE):
        if 'v' in sig:
            continue            # symbolic variant signatures do not finish: see the var family
        for le in ([True, False] if (tier == 'quick' and sig in BE_QUICK) else orders):
            to = 180 if tier == 'quick' else 900
            nb = nbytes
            if sig in ('s', 'o') and tier == 'thorough':
                nb = 12
            if 'g' in sig:
                nb = 7 if tier == 'quick' else 9
            obs.append(Ob('unm:%d:%s:%s:n%d' % (i, sig[:14], 'le' if le else 'be', nb), 'unm',
                          {'sig': sig, 'n': nb, 'le': le}, timeout=to, path_timeout=30, twin=(i % 4 == 0),
                          functions=FUNCS[:6], bounds='%d symbolic bytes' % nbytes))
    import itertools
    for i, (sig, vals) in enumerate(LENS_CASES):
        nf = len(length_fields(sig, vals, True)[1])
        if nf <= 3:
            subsets = [list(range(nf))]
        elif tier == 'quick':
            continue
        else:
            subsets = [list(c) for c in itertools.combinations(range(nf), 3)]
        if tier == 'quick' and i not in (0, 3, 5):
            continue
        for sub in subsets:
            for le in (True, False):
                obs.append(Ob('lens:%d:%s:%s:%s' % (i, sig, ''.join(map(str, sub)), 'le' if le else 'be'), 'lens',
                              {'case': i, 'le': le, 'sub': sub}, timeout=900, path_timeout=60, twin=(le and i == 5),
                              functions=FUNCS[:6],
                              bounds='up to 3 of the 4-byte array/string length fields of a valid encoding replaced by symbolic u32 values; contents concrete'))
    for i, vs in enumerate(VARIANT_SIGS):
        obs.append(Ob('var:%d:%s' % (i, vs), 'var', {'vsig': vs, 'n': 6}, timeout=120, path_timeout=30,
                      twin=True, functions=FUNCS[:6], bounds='variant signature concrete (hostile family), 6 symbolic bytes after it'))
    for i, ls in enumerate(LONG_SIGS):
        for carrier in ('top', 'var', 'hdr'):
            if carrier == 'var' and len(ls) > 255:
                continue
            if tier == 'quick' and carrier != 'top' and i % 3 != 0:
                continue
            obs.append(Ob('long:%d:%s:%s' % (i, carrier, ls[:8]), 'long', {'i': i, 'carrier': carrier, 'n': 6},
                          timeout=240, path_timeout=30, twin=(i % 5 == 0), functions=FUNCS,
                          bounds='concrete signature of %d characters, 6 symbolic data bytes' % len(ls)))
    obs.append(Ob('bulk:copies', 'bulk', {}, timeout=300, path_timeout=120, twin=True, functions=FUNCS,
                  bounds='valid encodings of 6 large values (2000 elements, 16-48 KB) cut at 4 lengths (symbolic selectors); the '
                         'input is a byte string that counts the bytes copied out of it by slicing'))
    for n in range(0, (3 if tier == 'quick' else 5) + 1):
        obs.append(Ob('gct:len%d' % n, 'gct', {'n': n}, timeout=300 if n <= 3 else 1500, path_timeout=30, twin=(n > 0),
                      functions=FUNCS[5:6], bounds='symbolic string of length %d, any characters' % n))
    bases = base_messages()
    nb = 2 if tier == 'quick' else len(bases)
    for name, raw in bases[:nb]:
        for pos in range(len(raw)):
            obs.append(Ob('mut:%s:%03d' % (name, pos), 'mut', {'base': name, 'pos': pos}, timeout=240, path_timeout=30,
                          twin=(pos % 8 == 0), functions=FUNCS, bounds='byte %d replaced by any value' % pos, weight=0.5))
    for name, raw in bases:
        obs.append(Ob('trunc:%s' % name, 'trunc', {'base': name}, timeout=240, path_timeout=30, twin=True,
                      functions=FUNCS, bounds='message cut at any length'))
    return obs


def build(family, p):
    from txdbus import marshal, message
    if family == 'unm':
        sig, n, le = p['sig'], p['n'], p['le']

        def h(data):
            for b in data:
                assume(0 <= b <= 255)
            raw = mkbytes(data)
            with Counter(marshal, limit(n, len(sig))) as c:
                try:
                    marshal.unmarshal(sig, raw, 0, le, [])
                except Budget:
                    raise Violation('decoder exceeded its step budget (work not bounded by input size)')
                except Exception:
                    pass
            reached()
        h.__name__ = 'unm'
        T = Tuple[tuple([int] * n)]
        wit = [tuple([0] * n), tuple([255] * n), tuple(([1, 0, 0, 0] + [0] * n)[:n]), tuple(([8, 0, 0, 0] + [1] * n)[:n]),
               tuple(([0, 0, 0, 8] + [0] * n)[:n]), tuple(([4, 0, 0, 0, 1, 97, 0, 0] + [0] * n)[:n])]
        return Spec(h, [('data', T)], witnesses=[(w,) for w in wit])

    if family == 'lens':
        sig, vals = LENS_CASES[p['case']]
        le = p['le']
        wire, offs = length_fields(sig, vals, le)
        offs = [offs[k] for k in p['sub']]
        nf = len(offs)

        def h(*lens):
            for v in lens:
                assume(0 <= v < 2 ** 32)
            parts = []
            last = 0
            for o, v in zip(offs, lens):
                parts.append(wire[last:o])
                parts.append(v.to_bytes(4, 'little' if le else 'big'))
                last = o + 4
            parts.append(wire[last:])
            raw = b''.join(parts)
            with Counter(marshal, limit(len(wire), len(sig))) as c:
                try:
                    marshal.unmarshal(sig, raw, 0, le, [])
                except Budget:
                    raise Violation('decoder exceeded its step budget with lying length fields')
                except Exception:
                    pass
            reached()
        h.__name__ = 'lens'
        honest = tuple(int.from_bytes(wire[o:o + 4], 'little' if le else 'big') for o in offs)
        wit = [honest, tuple([0] * nf), tuple([2 ** 32 - 1] * nf), tuple([2 ** 31] * nf),
               tuple((2 ** 32 - 13 + i) for i in range(nf)), tuple([honest[0]] + [2 ** 32 - 13] * (nf - 1))]
        return Spec(h, [('l%d' % i, int) for i in range(nf)], witnesses=wit)

    if family == 'long':
        ls, n, carrier = LONG_SIGS[p['i']], p['n'], p['carrier']
        from .. import ref_msg
        if carrier == 'var':
            head = bytes([len(ls)]) + ls.encode('ascii') + b'\0'
        elif carrier == 'hdr':
            hdr = bytearray(ref_msg.encode(4, 0, 5, [(1, 'o', '/x'), (2, 's', 'o.x'), (3, 's', 'S'), (8, 'g', ls)]))
            hdr[4:8] = (n).to_bytes(4, 'little')
            head = bytes(hdr)
        else:
            head = b''

        def h(data):
            for b in data:
                assume(0 <= b <= 255)
            raw = mkbytes(list(head) + list(data))
            with Counter(marshal, limit(len(head) + n, len(ls) + 1)) as c:
                try:
                    if carrier == 'var':
                        marshal.unmarshal('v', raw, 0, True, [])
                    elif carrier == 'hdr':
                        message.parseMessage(raw, [])
                    else:
                        marshal.unmarshal(ls, raw, 0, True, [])
                except Budget:
                    raise Violation('decoder exceeded its step budget on a long signature')
                except Exception:
                    pass
            reached()
        h.__name__ = 'long'
        T = Tuple[tuple([int] * n)]
        wit = [tuple([0] * n), tuple([255] * n), tuple([1, 0, 0, 0, 7, 0][:n]), tuple([2, 0, 0, 0, 1, 1][:n])]
        return Spec(h, [('data', T)], witnesses=[(w,) for w in wit])

    if family == 'bulk':
        from .. import ref_codec
        N = 2000
        CASES = [('as', [[''] * N]), ('as', [['ab'] * N]), ('a{ss}', [[['k%d' % i, 'v'] for i in range(N)]]),
                 ('a(sos)', [[['x', '/p', ''] for i in range(N)]]), ('ao', [['/a'] * N]), ('aas', [[['', 'q']] * (N // 2)])]
        wires = [ref_codec.encode(sg, vals, 0, True) for sg, vals in CASES]

        class CountingBytes(bytes):
            copied = 0

            def __getitem__(self, idx):
                r = bytes.__getitem__(self, idx)
                if isinstance(idx, slice):
                    CountingBytes.copied += len(r)
                return r

        def hb(code):
            ci, cut = decode_choice(code, [len(CASES), 4])
            with notrace():
                sg = CASES[ci][0]
                wire = wires[ci]
                data = CountingBytes(wire[:len(wire) - [0, 1, 5, len(wire) // 2][cut]])
                CountingBytes.copied = 0
                with Counter(marshal, 40 * N + 64):
                    try:
                        marshal.unmarshal(sg, data, 0, True, [])
                    except Budget:
                        raise Violation('decoder exceeded its step budget on a large valid value')
                    except Exception:
                        pass
                # every input byte is copied out a bounded number of times: work proportional to the input
                check(CountingBytes.copied <= 4 * len(data) + 64, 'decoding copied far more bytes than the input has (work not proportional to its length)')
            reached()
        hb.__name__ = 'bulk'
        return Spec(hb, [('code', int)], witnesses=[(0,), (len(CASES) * 4 - 1,), (5,), (10,)])

    if family == 'var':
        vsig, n = p['vsig'], p['n']
        head = bytes([len(vsig)]) + vsig.encode('ascii') + b'\0'

        def h(data):
            for b in data:
                assume(0 <= b <= 255)
            raw = mkbytes(list(head) + list(data))
            with Counter(marshal, limit(len(head) + n, len(vsig) + 1)) as c:
                try:
                    marshal.unmarshal('v', raw, 0, True, [])
                except Budget:
                    raise Violation('decoder exceeded its step budget (work not bounded by input size)')
                except Exception:
                    pass
            reached()
        h.__name__ = 'var'
        T = Tuple[tuple([int] * n)]
        wit = [tuple([0] * n), tuple([255] * n), tuple([1, 0, 0, 0, 0, 0][:n]), tuple([0, 4, 0, 0, 0, 1][:n])]
        return Spec(h, [('data', T)], witnesses=[(w,) for w in wit])

    if family == 'gct':
        n = p['n']

        def h(s):
            assume(len(s) == n)
            cnt = 0
            try:
                for ct in marshal.genCompleteTypes(s):
                    cnt += 1
                    if cnt > n + 1:
                        raise Violation('genCompleteTypes yields more pieces than characters')
            except Violation:
                raise
            except Exception:
                pass
            reached()
        h.__name__ = 'gct'
        pool = ['', 'a', '(', '{', ')', 'i', 'ai', 'a(', '(i', '()', 'a{', '(i)', 'a()', 'aai', '((i', 'a{}', '(ii)',
                'a(i)', '((()', 'a{sv', 'aaaa', 'a{sv}', '(i(i)', '((i))', 'aaaai', '{{{{{']
        return Spec(h, [('s', str)], witnesses=[(w,) for w in pool if len(w) == n])

    bases = dict(base_messages())
    raw0 = bases[p['base']]
    if family == 'mut':
        pos = p['pos']

        def h(v):
            assume(0 <= v <= 255)
            lst = list(raw0)
            lst[pos] = v
            raw = mkbytes(lst)
            with Counter(marshal, limit(len(raw0), 64)) as c:
                try:
                    message.parseMessage(raw, [])
                except Budget:
                    raise Violation('decoder exceeded its step budget on a mutated message')
                except Exception:
                    pass
            reached()
        h.__name__ = 'mut'
        return Spec(h, [('v', int)], witnesses=[(0,), (255,), (raw0[pos],), (raw0[pos] ^ 1,), (40,), (97,)])

    if family == 'trunc':
        def h(n):
            assume(0 <= n <= len(raw0))
            raw = raw0[:n]
            with Counter(marshal, limit(len(raw0), 64)) as c:
                try:
                    message.parseMessage(raw, [])
                except Budget:
                    raise Violation('decoder exceeded its step budget on a truncated message')
                except Exception:
                    pass
            reached()
        h.__name__ = 'trunc'
        return Spec(h, [('n', int)], witnesses=[(0,), (1,), (16,), (len(raw0) - 1,), (len(raw0),)])
    raise KeyError(family)
