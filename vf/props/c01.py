"""C01 - encode then decode is the identity (real marshal.marshal / marshal.unmarshal)."""
from ..engine import Spec, assume, check, reached
from ..runner import Ob
from .. import shapes
from ..ref_sig import enumerate_types, split

PROPERTY = 'C01'
FUNCS = ('txdbus.marshal:marshal', 'txdbus.marshal:unmarshal', 'txdbus.marshal:genCompleteTypes',
         'txdbus.marshal:marshal_array', 'txdbus.marshal:unmarshal_array',
         'txdbus.marshal:marshal_variant', 'txdbus.marshal:unmarshal_variant',
         'txdbus.marshal:marshal_string', 'txdbus.marshal:unmarshal_string',
         'txdbus.marshal:marshal_signature', 'txdbus.marshal:unmarshal_signature',
         'txdbus.marshal:marshal_unix_fd', 'txdbus.marshal:unmarshal_unix_fd',
         'txdbus.marshal:genpad', 'txdbus.marshal:sigFromPy')
EXPLANATION = (
    'Bounded symbolic execution (CrossHair/z3) of the real marshal.marshal followed by the real '
    'marshal.unmarshal. One obligation = one concrete shape (signature, container lengths, start '
    'offset, byte order, struct input form); every scalar leaf is a solver variable over its full '
    'range (all integer types, booleans, fd numbers, the code points of strings). CONFIRMED means '
    'the decision tree was exhausted: for all leaf values the decoded values equal the input and '
    'both byte counts equal the number of bytes produced.')
BOUNDS = {
    'quick': 'every single complete type with <=3 type codes and nesting <=2 (350 types), each at '
             'one (offset, byte order, array length in {0,1,2}, struct form) combination chosen '
             'round-robin so all 8 offsets / 2 orders / 3 lengths / 3 forms occur; all pairs of '
             'the 17 type codes; fixed nasty signatures; strings of 1-2 code points; doubles from '
             'a fixed set of 9; o/g leaves and dict keys from pools',
    'thorough': 'as quick but every type with <=3 codes at all 8 offsets x 2 orders x lengths '
                '{0,1,2}; types with 4 codes and nesting <=3 at 2 round-robin combinations each',
}
ASSUMPTIONS = [
    'doubles are not symbolic (struct.pack("d") is a C boundary): 9 fixed bit patterns incl. nan, +-inf, -0.0, denormal',
    'strings have 0-2 code points (each any non-NUL, non-surrogate code point)',
    'object paths, signature values and dict keys come from fixed pools (keys would be realised by hashing)',
    'signatures beyond 4 type codes / nesting 3 are outside the claim; containers have 0-2 elements, and 255-300 elements for 17 array signatures',
    'CrossHair models of bytes/str/int and vf/plugin.py corrections are trusted; every counterexample is replayed on the plain interpreter',
]
STUBS = []

NASTY = ['a{sv}', 'a(yv)', 'yyyyuua(yv)', 'a{s(ias)}', 'aa{yv}', '(y(y(yx)))', 'a(ya{qt})',
         'vyv', 'sgo', 'a(nd)', 'yaay', 'ya(x)', 'av', 'ahh', 'a{yh}', 'bad', 'yat', 'ya{yx}']
LONG_ARRAYS = ['ay', 'ab', 'an', 'aq', 'ai', 'au', 'ax', 'at', 'ad', 'as', 'ao', 'ag', 'a(y)', 'a(tt)', 'yat', '(yat)', 'atat']
CODES17 = ['y', 'b', 'n', 'q', 'i', 'u', 'x', 't', 'd', 's', 'o', 'g', 'ai', '(y)', 'v', 'a{yy}', 'h']


def _combos():
    out = []
    for off in range(8):
        for le in (True, False):
            for L in (0, 1, 2):
                out.append((off, le, L))
    return out


def obligations(tier):
    obs = []
    combos = _combos()
    n = 0

    def add(sig, off, le, L, form, strlen=1, timeout=90, fam='rt'):
        nonlocal n
        n += 1
        p = {'sig': sig, 'off': off, 'le': le, 'L': L, 'form': form, 'seed': n, 'strlen': strlen}
        oid = '%s:%s:o%d:%s:L%d:f%d:s%d' % (fam, sig, off, 'le' if le else 'be', L, form, strlen)
        obs.append(Ob(oid, fam, p, timeout=timeout, path_timeout=15, twin=(n % 8 == 0) or tier == 'thorough',
                      functions=FUNCS, bounds='leaves symbolic over full range; shape concrete'))

    types3 = enumerate_types(3, 2)
    if tier == 'quick':
        for i, t in enumerate(types3):
            off, le, L = combos[(i * 7) % len(combos)]
            add(t, off, le, L, i % 3, strlen=1 + (i % 2))
        for i, a in enumerate(CODES17):
            for j, b in enumerate(CODES17):
                off, le, L = combos[(i * 17 + j) * 5 % len(combos)]
                add(a + b, off, le, max(L, 1), (i + j) % 3)
        for i, s in enumerate(NASTY):
            for k in range(3):
                off, le, L = combos[(i * 11 + k * 17) % len(combos)]
                add(s, off, le, L, k)
    else:
        for i, t in enumerate(types3):
            for (off, le, L) in combos:
                add(t, off, le, L, (i + off + L) % 3, strlen=1 + ((i + off) % 2))
        for i, t in enumerate(enumerate_types(4, 3)[len(types3):]):
            for k in range(2):
                off, le, L = combos[(i * 7 + k * 23) % len(combos)]
                add(t, off, le, L, (i + k) % 3)
        for i, a in enumerate(CODES17):
            for j, b in enumerate(CODES17):
                for k in range(4):
                    off, le, L = combos[((i * 17 + j) * 5 + k * 13) % len(combos)]
                    add(a + b, off, le, max(L, 1), (i + j + k) % 3)
        for i, s in enumerate(NASTY):
            for (off, le, L) in combos:
                add(s, off, le, L, (i + off) % 3)
    # long arrays (bulk paths, 16-bit counters): 255..300 elements, a few of them symbolic, the rest boundary constants
    for i, s in enumerate(LONG_ARRAYS):
        if tier == 'quick' and s in ('ab', 'as'):
            continue                    # ~100 s each: thorough only
        lens = [256] if tier == 'quick' else [255, 256, 257, 300]
        for k, L in enumerate(lens):
            for c in range(1 if tier == 'quick' else 3):
                off, le, _ = combos[(i * 11 + k * 5 + c * 19) % len(combos)]
                add(s, off, le, L, (i + k) % 3, timeout=300)
    # de-duplicate ids (round-robin may collide)
    seen = {}
    for o in obs:
        seen.setdefault(o.id, o)
    return list(seen.values())


def build(family, p):
    from txdbus import marshal
    sig, off, le, L, form = p['sig'], p['off'], p['le'], p['L'], p['form']
    ctx = shapes.Ctx(p['seed'])
    nodes = [shapes.template(ct, L, ctx, strlen=p.get('strlen', 1)) for ct in split(sig)]
    params, kinds = shapes.leaf_params(nodes)

    def h(*args):
        shapes.assume_leaves(kinds, args, assume)
        it = iter(args)
        fds = []
        py, exp = [], []
        for nd in nodes:
            a, b, _ = shapes.instantiate(nd, it, marshal, form, False, None)
            py.append(a)
            exp.append(b)
        oob = []
        n, chunks = marshal.marshal(sig, py, off, le, oob)
        data = b'\0' * off + b''.join(chunks)
        check(n == len(data) - off, 'marshal reports a byte count different from the bytes produced')
        m, vals = marshal.unmarshal(sig, data, off, le, oob)
        check(m == n, 'unmarshal consumed a different number of bytes than marshal produced')
        check(shapes.deq(vals, exp), 'round trip changed the value')
        reached()

    h.__name__ = 'rt'
    wit = [shapes.witness_values(kinds, w) for w in range(4)] if kinds else [()]
    return Spec(h, params, witnesses=wit)
