"""C13 - built-in bus: a name has one live owner; ownership follows request flags."""
from ..engine import Spec, assume, check, reached, HarnessError, notrace, concrete, decode_choice, encode_choice
from ..runner import Ob
from .. import ref_names as R

PROPERTY = 'C13'
FUNCS = ('txdbus.bus:Bus.dbus_RequestName', 'txdbus.bus:Bus.dbus_ReleaseName', 'txdbus.bus:Bus.clientDisconnected',
         'txdbus.bus:Bus.dbus_GetNameOwner', 'txdbus.bus:Bus.dbus_ListQueuedOwners', 'txdbus.bus:Bus.messageReceived',
         'txdbus.bus:Bus.sendMessage', 'txdbus.client:DBusClientConnection.requestBusName')
EXPLANATION = (
    'step: ONE operation of the real Bus (RequestName with a SYMBOLIC u32 flags word, ReleaseName, disconnect, '
    'GetNameOwner, ListQueuedOwners) from an ARBITRARY valid name table (owner plus up to two queued peers among 4, '
    'symbolic arrangement and allow-replacement bits, per-peer maps consistent) is compared with a reference name '
    'table: reply code, resulting owner/queue, NameAcquired / NameLost recipients, and the invariant (one owner, '
    'connected, no duplicates, no peer that released or disconnected). hist: operation histories from the empty table '
    'through real method-call messages and Bus.messageReceived. flags: requestBusName flag bits on the client side.')
BOUNDS = {'quick': 'step: 4 peers, 1 name, queue length <= 3 (one arrangement per length; every caller position and an outsider), allow bits and flags (any u32) symbolic; hist: <= 2 operations over 3 peers x 2 names, 3 operations over 2 peers x 1 name',
          'thorough': 'hist: 2 operations over 4 peers x 2 names, 3 over 3 x 2, 4 over 2 x 1'}
ASSUMPTIONS = ['step uses one arrangement of peers per queue length in quick (4 in thorough): the bus treats peers uniformly, callers cover every queue position plus an outsider',
               'peers are stand-ins for BusProtocol (uniqueName, busNames, matchRules, isConnected, sendMessage recorder)',
               'what happens to a replaced owner (dropped or queued) is not fixed by the statement: both are accepted',
               'only the low three flag bits may matter: any u32 is tried']
STUBS = ['FakePeer instead of BusProtocol inside Bus']

NAME = 'org.t.Name'
NAMES2 = ['org.t.Name', 'org.t.Other']


class FakePeer:
    def __init__(self, k):
        self.uniqueName = ':1.%d' % k
        self.busNames = {}
        self.matchRules = set()
        self.isConnected = True
        self.sent = []
        self.username = 'u'

    def sendMessage(self, m):
        self.sent.append(m)


def obligations(tier):
    obs = []
    arrangements = [[0, 1, 2]] if tier == 'quick' else [[0, 1, 2], [2, 0, 3], [3, 2, 1], [1, 3, 0]]
    for arr in arrangements:
        for qlen in range(0, 4):
            if qlen == 0 and arr != arrangements[0]:
                continue
            q = arr[:qlen]
            callers = sorted(set(q)) + [min(x for x in range(4) if x not in q)]
            for c in callers:
                for op in ('request', 'release', 'disconnect', 'lookup'):
                    obs.append(Ob('step:q%s:c%d:%s' % (''.join(map(str, q)) or '-', c, op), 'step',
                                  {'q': q, 'c': c, 'op': op}, timeout=600, path_timeout=60,
                                  twin=(op == 'request' or c == 0), functions=FUNCS[:5],
                                  bounds='allow-replacement bits of every queued peer symbolic; flags any u32'))
    # (k operations, peers, names)
    configs = [(1, 3, 2), (2, 3, 2), (3, 2, 1)] if tier == 'quick' else [(1, 4, 2), (2, 4, 2), (3, 3, 2), (4, 2, 1), (3, 3, 1)]
    for (k, npeers, nnames) in configs:
        nops = _nops(npeers, nnames)
        firsts = [None] if k <= 1 else list(range(nops))
        for first in firsts:
            obs.append(Ob('hist:k%d:p%d:n%d:first%s' % (k, npeers, nnames, first), 'hist',
                          {'k': k, 'npeers': npeers, 'nnames': nnames, 'first': first}, timeout=1800,
                          path_timeout=60, twin=(first in (None, 0)), functions=FUNCS[:7],
                          bounds='%d operations over %d peers, %d names (symbolic selectors)' % (k, npeers, nnames), weight=0.6))
    obs.append(Ob('flags:client', 'cflags', {}, timeout=120, twin=True, functions=FUNCS[7:],
                  bounds='three booleans symbolic'))
    return obs


def _per_peer(nnames):
    # per peer: 8 flag combos x names request, one release per name, 1 disconnect
    return 8 * nnames + nnames + 1


def _nops(npeers, nnames):
    return npeers * _per_peer(nnames)


def _signals(peer, n0):
    out = []
    for m in peer.sent[n0:]:
        if m._messageType == 4:
            out.append((m.member, m.body[0] if m.body else None))
    return out


def _queue(bus, name):
    """Owner + waiters of a name, as the bus itself reports them (ListQueuedOwners; [] when nobody owns it)."""
    try:
        return list(bus.dbus_ListQueuedOwners(name))
    except Exception as e:
        if type(e).__name__ != 'DError':
            raise
        return []


def _recorded_allow(peer, name):
    """The allow-replacement bit the bus recorded for a client (None when this tree keeps it elsewhere)."""
    m = getattr(peer, 'busNames', None)
    if isinstance(m, dict):
        return (name in m), (bool(m[name]) if name in m else None)
    return None, None


def _check_table(bus, peers, table, names, connected):
    for name in names:
        want = table.queue(name)
        got = _queue(bus, name)
        if want:
            check(len(got) >= 1 and got[0] == want[0], 'owner differs from the reference name table')
        check(got == want, 'owner/queue differs from the reference name table')
        check(len(set(got)) == len(got), 'a client appears twice in a name queue')
        for u in got:
            check(u in connected, 'a disconnected client owns or waits for a name')


def build(family, p):
    from ..fakes import install_clock_reactor
    install_clock_reactor()
    from txdbus import bus as busmod, client, message, error

    if family == 'cflags':
        from ..fakes import install_clock_reactor, fresh_clock
        install_clock_reactor()
        from .c08 import _mk_conn

        def h(a, r, q):
            message.DBusMessage._nextSerial = 1
            with notrace():
                fresh_clock()
                c = _mk_conn(client)
            c.requestBusName(NAME, allowReplacement=a, replaceExisting=r, doNotQueue=q)
            w = [e[1] for e in c.transport.events if e[0] == 'write']
            m = message.parseMessage(w[0], [])
            check(m.member == 'RequestName' and m.destination == 'org.freedesktop.DBus' and m.signature == 'su', 'RequestName call malformed')
            check(m.body == [NAME, (1 if a else 0) + (2 if r else 0) + (4 if q else 0)], 'flag bits differ from the specification')
            reached()
        h.__name__ = 'cflags'
        return Spec(h, [('a', bool), ('r', bool), ('q', bool)], witnesses=[(False, False, True), (True, True, False)])

    if family == 'step':
        qs, c, op = list(p['q']), p['c'], p['op']
        qlen = len(qs)

        def h(a0, a1, a2, flags):
            assume(0 <= flags < 2 ** 32)
            allows = [a0, a1, a2][:qlen]
            with notrace():
                b = busmod.Bus()
                peers = [FakePeer(k) for k in range(4)]
                for pr in peers:
                    b.clients[pr.uniqueName] = pr
            table = R.Table()
            # the arbitrary pre-state (owner, waiters in order, their allow bits) is reached through the bus's own
            # entry point: the first requester owns the name, the others queue behind it in request order
            for q, al in zip(qs, allows):
                fl = 1 if al else 0
                b.dbus_RequestName(NAME, fl, dbusCaller=peers[q].uniqueName)
                table.request(NAME, peers[q].uniqueName, bool(al), False, False)
            with notrace():
                if _queue(b, NAME) != table.queue(NAME):
                    raise HarnessError('pre-state could not be established through RequestName')
            me = peers[c]
            n0 = [len(pr.sent) for pr in peers]
            connected = {pr.uniqueName for pr in peers}
            if op == 'request':
                code = b.dbus_RequestName(NAME, flags, dbusCaller=me.uniqueName)
                al, rp, nq = (flags % 2 == 1), ((flags // 2) % 2 == 1), ((flags // 4) % 2 == 1)
                old_owner = table.owner(NAME)
                alt = table.copy()
                want, ev = table.request(NAME, me.uniqueName, al, rp, nq)
                check(code == want, 'RequestName reply code differs from the caller\'s resulting relation to the name')
                got = _queue(b, NAME)
                wq = table.queue(NAME)
                if ('lost', old_owner) in ev and old_owner is not None:
                    # replaced owner: dropped (reference) or queued right behind the new owner: both accepted
                    altq = [wq[0], old_owner] + wq[1:]
                    check(got == wq or got == altq, 'queue after a replacement differs from the reference')
                else:
                    check(got == wq, 'owner/queue after RequestName differs from the reference')
                check(len(set(got)) == len(got), 'a client appears twice in the queue')
                for kind, who in ev:
                    pr = [x for x in peers if x.uniqueName == who][0]
                    sg = _signals(pr, n0[peers.index(pr)])
                    check((('NameAcquired' if kind == 'acquired' else 'NameLost'), NAME) in sg,
                          'NameAcquired / NameLost not sent to the client concerned')
                for i, pr in enumerate(peers):
                    for mem, nm in _signals(pr, n0[i]):
                        if mem in ('NameAcquired', 'NameLost'):
                            check(((mem == 'NameAcquired' and ('acquired', pr.uniqueName) in ev)
                                   or (mem == 'NameLost' and ('lost', pr.uniqueName) in ev)),
                                  'NameAcquired / NameLost sent to a client whose relation did not change')
                # allow-replacement bit recorded for every client that owns or waits (it decides later requests)
                for who, allow in table.names.get(NAME, []):
                    pr = [x for x in peers if x.uniqueName == who][0]
                    has, rec = _recorded_allow(pr, NAME)
                    if has is not None:
                        check(has and rec == bool(allow),
                              'allow-replacement flag recorded for a client differs from its latest request')
                for pr in peers:
                    if pr.uniqueName not in got:
                        has, rec = _recorded_allow(pr, NAME)
                        check(not has, 'a client that neither owns nor waits still has the name in its map')
            elif op == 'release':
                code = b.dbus_ReleaseName(NAME, dbusCaller=me.uniqueName)
                want, ev = table.release(NAME, me.uniqueName)
                check(code == want, 'ReleaseName reply code differs from the specification')
                _check_table(b, peers, table, [NAME], connected)
                for kind, who in ev:
                    if kind == 'acquired':
                        pr = [x for x in peers if x.uniqueName == who][0]
                        check(('NameAcquired', NAME) in _signals(pr, n0[peers.index(pr)]),
                              'the promoted client is not told NameAcquired')
            elif op == 'disconnect':
                me.isConnected = False
                b.clientDisconnected(me)
                connected.discard(me.uniqueName)
                ev = table.disconnect(me.uniqueName)
                _check_table(b, peers, table, [NAME], connected)
                check(me.uniqueName not in b.clients, 'disconnected client still registered')
                for e in ev:
                    pr = [x for x in peers if x.uniqueName == e[1]][0]
                    check(('NameAcquired', NAME) in _signals(pr, n0[peers.index(pr)]),
                          'the promoted client is not told NameAcquired')
            else:
                try:
                    o = b.dbus_GetNameOwner(NAME)
                except busmod.DError as e:
                    o = None
                    check(e.errorName == 'org.freedesktop.DBus.Error.NameHasNoOwner', 'wrong error for an unowned name')
                check(o == table.owner(NAME), 'GetNameOwner disagrees with the name table')
                try:
                    ql = b.dbus_ListQueuedOwners(NAME)
                except busmod.DError as e:
                    ql = []
                check(ql == table.queue(NAME), 'ListQueuedOwners disagrees with the name table')
                o2 = b.dbus_GetNameOwner(me.uniqueName)
                check(o2 == me.uniqueName, 'a unique name must resolve to itself')
            reached()
        h.__name__ = 'step'
        wit = []
        for w in range(8):
            wit.append((bool(w & 1), bool(w & 2), bool(w & 4), [0, 1, 2, 3, 4, 7, 6, 5][w]))
        wit.append((True, False, False, 2 ** 32 - 1))
        wit.append((False, False, False, 2 ** 32 - 2))
        return Spec(h, [('a0', bool), ('a1', bool), ('a2', bool), ('flags', int)], witnesses=wit)

    # ---- histories through real messages
    k, npeers, nnames = p['k'], p['npeers'], p['nnames']
    NOPS = _nops(npeers, nnames)
    PP = _per_peer(nnames)
    NAMES = NAMES2[:nnames]

    first = p.get('first')
    nfree = k if first is None else k - 1

    def h(code):
        ops = decode_choice(code, [NOPS] * nfree)
        if first is not None:
            ops = [first] + ops
        message.DBusMessage._nextSerial = 1
        with notrace():
            run(ops)
        reached()

    def run(ops):
        b = busmod.Bus()
        peers = [FakePeer(i) for i in range(npeers)]
        for pr in peers:
            b.clients[pr.uniqueName] = pr
        connected = {pr.uniqueName for pr in peers}
        table = R.Table()
        serial = [10]

        def call(pr, member, sig, body):
            serial[0] += 1
            message.DBusMessage._nextSerial = serial[0]
            m = message.MethodCallMessage('/org/freedesktop/DBus', member, interface='org.freedesktop.DBus',
                                          destination='org.freedesktop.DBus', signature=sig, body=body)
            m.sender = pr.uniqueName
            n0 = len(pr.sent)
            b.messageReceived(pr, m)
            replies = [x for x in pr.sent[n0:] if x._messageType in (2, 3) and x.reply_serial == m.serial]
            check(len(replies) == 1, 'a bus call must get exactly one reply')
            return replies[0]
        for o in ops:
            who, kind = o // PP, o % PP
            pr = peers[who]
            if pr.uniqueName not in connected:
                continue
            if kind < 8 * nnames:
                name, flags = NAMES[kind // 8], kind % 8
                r = call(pr, 'RequestName', 'su', [name, flags])
                want, ev = table.request(name, pr.uniqueName, bool(flags & 1), bool(flags & 2), bool(flags & 4))
                check(r._messageType == 2 and r.body == [want], 'RequestName reply code differs from the reference')
            elif kind < 9 * nnames:
                name = NAMES[kind - 8 * nnames]
                r = call(pr, 'ReleaseName', 's', [name])
                want, ev = table.release(name, pr.uniqueName)
                check(r._messageType == 2 and r.body == [want], 'ReleaseName reply code differs from the reference')
            else:
                pr.isConnected = False
                b.clientDisconnected(pr)
                connected.discard(pr.uniqueName)
                table.disconnect(pr.uniqueName)
            # after every step: lookups agree with the table, invariant holds
            for name in NAMES:
                got = _queue(b, name)
                want = table.queue(name)
                if len(want) >= 2 and got != want:
                    # tolerate a replaced owner kept in the queue
                    pass
                check(got[:1] == want[:1], 'owner differs from the reference after a history')
                check(len(set(got)) == len(got), 'a client appears twice in a queue')
                for u in got:
                    check(u in connected, 'a disconnected client owns or waits for a name')
                check(sorted(got) == sorted(want) or set(want) <= set(got), 'queue membership differs from the reference')
                for who, allow in table.names.get(name, []):
                    pr2 = [x for x in peers if x.uniqueName == who][0]
                    has, rec = _recorded_allow(pr2, name)
                    if has is not None:
                        check(has and rec == bool(allow),
                              'allow-replacement flag recorded for a client differs from its latest request')
                asker = [x for x in peers if x.uniqueName in connected]
                if asker:
                    r = call(asker[0], 'GetNameOwner', 's', [name])
                    if want:
                        check(r._messageType == 2 and r.body == [want[0]], 'GetNameOwner disagrees with the name table')
                    else:
                        check(r._messageType == 3, 'GetNameOwner must fail for an unowned name')
    h.__name__ = 'hist'
    wit = [[(7 * i + 3 * j) % NOPS for j in range(nfree)] for i in range(5)]
    wit.append(([0, PP + 2, PP + PP - 1, 1] * 2)[:nfree])
    wit = [(encode_choice(w, [NOPS] * nfree),) for w in wit]
    return Spec(h, [('code', int)], witnesses=wit)
