"""C20 - file descriptors stay attached to the message that carried them."""
from ..engine import Spec, assume, check, reached, HarnessError
from ..runner import Ob
from ..fakes import FakeTransport, install_clock_reactor, fresh_clock

PROPERTY = 'C20'
FUNCS = ('txdbus.protocol:BasicDBusProtocol.rawDBusMessageReceived',
         'txdbus.protocol:BasicDBusProtocol.fileDescriptorReceived',
         'txdbus.protocol:BasicDBusProtocol.sendMessage', 'txdbus.protocol:BasicDBusProtocol.dataReceived',
         'txdbus.marshal:marshal_unix_fd', 'txdbus.marshal:unmarshal_unix_fd',
         'txdbus.message:DBusMessage._marshal', 'txdbus.client:DBusClientConnection.callRemote')
EXPLANATION = (
    'recv: real BasicDBusProtocol fed the bytes of real MethodCallMessages carrying 0-3 descriptors each; the '
    'descriptor NUMBERS are symbolic and so is the SCHEDULE (at each step: next descriptor arrives, or the next '
    'chunk of bytes), constrained to what a stream socket can produce (descriptors in sending order, each no '
    'later than the last byte of its message, later messages\' descriptors may already be queued). Each message '
    'must decode to its own descriptors in argument order, consuming exactly the declared count. send: '
    'sendMessage emits the descriptors in argument order before the bytes and the header declares their count. '
    'client: callRemote uses a fresh out-of-band list per call.')
BOUNDS = {'quick': 'recv: 10 message sequences of 2-3 messages with 0-3 descriptors each, schedule of <= 9 symbolic steps, '
                   'one cut inside each message', 'thorough': 'recv: 14 sequences, two cut positions per message'}
ASSUMPTIONS = ['message bytes are concrete (descriptor numbers travel out of band), the schedule and the numbers are symbolic',
               'arrival orders a stream socket cannot produce (a descriptor after the last byte of its message) are outside the claim']
STUBS = ['FakeTransport records sendFileDescriptor/write', 'task.Clock as reactor for txdbus.client']

SEQS_QUICK = [[2, 0, 1], [1, 1], [0, 2], [3, 0], [1, 0, 1], [2, 2]]
SEQS_THOROUGH = SEQS_QUICK + [[0, 0], [3, 3], [1, 2, 3], [0, 1, 0], [2, 1], [1, 3], [3, 1, 0], [0, 3, 1]]


def obligations(tier):
    obs = []
    seqs = (SEQS_QUICK + [[0, 0], [2, 1], [0, 1, 0], [1, 3]]) if tier == 'quick' else SEQS_THOROUGH
    cutsets = [[0.5]] if tier == 'quick' else [[0.5], [0.1, 0.9]]
    for s in seqs:
        for ci, cs in enumerate(cutsets):
            obs.append(Ob('recv:%s:c%d' % ('-'.join(map(str, s)), ci), 'recv', {'seq': s, 'cuts': cs}, timeout=300 if sum(s) <= 4 else 2400,
                          path_timeout=30, twin=True, functions=FUNCS[:6],
                          bounds='fd numbers and arrival schedule symbolic'))
        obs.append(Ob('send:%s' % '-'.join(map(str, s)), 'send', {'seq': s}, timeout=60, twin=True,
                      functions=FUNCS[2:3] + FUNCS[4:7], bounds='fd numbers symbolic'))
    obs.append(Ob('client:fresh-list', 'client', {}, timeout=60, twin=True, functions=FUNCS[7:],
                  bounds='fd numbers symbolic; two consecutive calls'))
    return obs


def _mk(message, nf, fds, serial):
    message.DBusMessage._nextSerial = serial
    sig = 'u' + 'h' * nf + 's'
    body = [serial] + list(fds) + ['x']
    return message.MethodCallMessage('/p', 'M%d' % nf, interface='a.b', signature=sig, body=body, oobFDs=[])


def build(family, p):
    from txdbus import protocol, message
    if family in ('recv', 'send'):
        seq = p['seq']
        nf_total = sum(seq)
        params = [('f%d' % i, int) for i in range(nf_total)]

        def split_fds(args):
            out, i = [], 0
            for nf in seq:
                out.append(list(args[i:i + nf]))
                i += nf
            return out

    if family == 'send':
        def h(*fds):
            for f in fds:
                assume(0 <= f < 2 ** 31)
            per = split_fds(fds)
            pr = protocol.BasicDBusProtocol()
            pr.transport = FakeTransport()
            for j, nf in enumerate(seq):
                m = _mk(message, nf, per[j], 10 + j)
                n0 = len(pr.transport.events)
                pr.sendMessage(m)
                ev = pr.transport.events[n0:]
                check(len(ev) == nf + 1, 'wrong number of transport operations for a message')
                for i in range(nf):
                    check(ev[i][0] == 'fd' and ev[i][1] == per[j][i], 'descriptors not sent first, in argument order')
                check(ev[nf][0] == 'write' and ev[nf][1] == m.rawMessage, 'message bytes not written after its descriptors')
                pm = message.parseMessage(m.rawMessage, list(per[j]))
                if nf:
                    check(getattr(pm, 'unix_fds', None) == nf, 'header does not declare the descriptor count')
                else:
                    check(getattr(pm, 'unix_fds', None) in (None, 0), 'descriptor count declared without descriptors')
                check(pm.body == [10 + j] + per[j] + ['x'], 'descriptor arguments do not resolve by position')
            reached()
        h.__name__ = 'send'
        return Spec(h, params, witnesses=[tuple(range(3, 3 + nf_total)), tuple([2 ** 31 - 1] * nf_total)])

    if family == 'recv':
        cuts = p['cuts']
        nsteps = nf_total + len(seq) * (len(cuts) + 1)
        sparams = params + [('s%d' % i, bool) for i in range(nsteps)]

        class Rec(protocol.BasicDBusProtocol):
            def __init__(self):
                self.seen = []
                self._receivedFDs = []
                self._authenticated = True

            def methodCallReceived(self, m):
                self.seen.append((m, list(self._receivedFDs)))

        def h(*args):
            fds, sched = args[:nf_total], args[nf_total:]
            for f in fds:
                assume(0 <= f < 2 ** 31)
            per = split_fds(fds)
            msgs = [_mk(message, nf, per[j], 10 + j) for j, nf in enumerate(seq)]
            # chunks: (message index, bytes, is_last_chunk_of_message)
            chunks = []
            for j, m in enumerate(msgs):
                raw = m.rawMessage
                pts = sorted({max(1, min(len(raw) - 1, int(len(raw) * c))) for c in cuts})
                last = 0
                for c in pts + [len(raw)]:
                    chunks.append((j, raw[last:c], c == len(raw)))
                    last = c
            flat = [(j, f) for j in range(len(seq)) for f in per[j]]
            pr = Rec()
            fi = ci = 0
            delivered = []      # descriptors handed to the protocol so far (message index, fd)
            for step in range(nsteps):
                if fi >= len(flat) and ci >= len(chunks):
                    break
                want_fd = sched[step]
                if ci < len(chunks):
                    j, data, is_last = chunks[ci]
                    # a stream socket delivers a message's descriptors no later than its last byte
                    must_fd = is_last and fi < len(flat) and flat[fi][0] <= j
                else:
                    must_fd = True
                if fi < len(flat) and (must_fd or want_fd or ci >= len(chunks)):
                    pr.fileDescriptorReceived(flat[fi][1])
                    delivered.append(flat[fi])
                    fi += 1
                else:
                    pr.dataReceived(data)
                    ci += 1
                    if is_last:
                        check(len(pr.seen) == j + 1, 'complete message not dispatched')
                        m, queue = pr.seen[j]
                        check(m.body == [10 + j] + per[j] + ['x'],
                              'descriptor arguments resolved to descriptors of another message')
                        later = [f for (jj, f) in delivered if jj > j]
                        check(queue == later, 'descriptor queue after a message is not exactly the later messages\' descriptors')
            assume(fi == len(flat) and ci == len(chunks))
            check(len(pr.seen) == len(seq), 'not every message was dispatched')
            check(pr._receivedFDs == [], 'descriptors left in the queue after all messages')
            reached()
        h.__name__ = 'recv'
        w1 = tuple(range(3, 3 + nf_total)) + tuple([True] * nsteps)
        w2 = tuple(range(3, 3 + nf_total)) + tuple([False] * nsteps)
        w3 = tuple([7] * nf_total) + tuple([(i % 2 == 0) for i in range(nsteps)])
        return Spec(h, sparams, witnesses=[w1, w2, w3])

    if family == 'client':
        install_clock_reactor()
        from txdbus import client

        def h(f1, f2, f3):
            for f in (f1, f2, f3):
                assume(0 <= f < 2 ** 31)
            fresh_clock()
            message.DBusMessage._nextSerial = 1
            c = client.DBusClientConnection()
            c.transport = FakeTransport()
            c._pendingCalls = {}
            c.callRemote('/p', 'A', interface='a.b', destination='x.y', signature='hh', body=[f1, f2])
            c.callRemote('/p', 'B', interface='a.b', destination='x.y', signature='h', body=[f3])
            c.callRemote('/p', 'C', interface='a.b', destination='x.y')
            ev = c.transport.events
            kinds = [e[0] for e in ev]
            check(kinds == ['fd', 'fd', 'write', 'fd', 'write', 'write'], 'descriptors/bytes emitted in the wrong order')
            check([e[1] for e in ev if e[0] == 'fd'] == [f1, f2, f3], 'wrong descriptors emitted')
            writes = [e[1] for e in ev if e[0] == 'write']
            m1 = message.parseMessage(writes[0], [f1, f2])
            m2 = message.parseMessage(writes[1], [f3])
            m3 = message.parseMessage(writes[2], [])
            check(m1.unix_fds == 2 and m1.body == [f1, f2], 'first call: count/positions wrong')
            check(m2.unix_fds == 1 and m2.body == [f3], 'second call inherits descriptors of the first (shared list)')
            check(getattr(m3, 'unix_fds', None) in (None, 0), 'plain call declares descriptors')
            reached()
        h.__name__ = 'client'
        return Spec(h, [('f1', int), ('f2', int), ('f3', int)], witnesses=[(3, 4, 5), (0, 0, 0)])
    raise KeyError(family)
