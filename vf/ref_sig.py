"""
DBus type grammar, written from the specification (independent of txdbus.marshal).

  single complete type :=  basic | 'v' | 'a' type | '(' type+ ')' | 'a' '{' basic type '}'
"""
BASIC = 'ybnqiuxtdsogh'
ALIGN = {'y': 1, 'b': 4, 'n': 2, 'q': 2, 'i': 4, 'u': 4, 'x': 8, 't': 8, 'd': 8,
         's': 4, 'o': 4, 'g': 1, 'a': 4, '(': 8, 'v': 1, '{': 8, 'h': 4}
INT_RANGE = {'y': (0, 2**8 - 1), 'n': (-2**15, 2**15 - 1), 'q': (0, 2**16 - 1),
             'i': (-2**31, 2**31 - 1), 'u': (0, 2**32 - 1), 'x': (-2**63, 2**63 - 1),
             't': (0, 2**64 - 1)}
INT_SIZE = {'y': 1, 'n': 2, 'q': 2, 'i': 4, 'u': 4, 'x': 8, 't': 8}


class SigError(ValueError):
    pass


def _one(sig, i, in_array=False):
    """Returns index just past the single complete type starting at i."""
    if i >= len(sig):
        raise SigError('truncated')
    c = sig[i]
    if c in BASIC or c == 'v':
        return i + 1
    if c == 'a':
        return _one(sig, i + 1, True)
    if c == '(':
        j = i + 1
        if j < len(sig) and sig[j] == ')':
            raise SigError('empty struct')
        while True:
            if j >= len(sig):
                raise SigError('unterminated struct')
            if sig[j] == ')':
                return j + 1
            j = _one(sig, j)
    if c == '{':
        if not in_array:
            raise SigError('dict entry outside array')
        j = i + 1
        if j >= len(sig) or sig[j] not in BASIC:
            raise SigError('dict key must be basic')
        j = _one(sig, j + 1)
        if j >= len(sig) or sig[j] != '}':
            raise SigError('dict entry must have exactly two fields')
        return j + 1
    raise SigError('bad type code')


def split(sig):
    """Top-level complete types of a valid signature; raises SigError otherwise."""
    out = []
    i = 0
    while i < len(sig):
        j = _one(sig, i)
        out.append(sig[i:j])
        i = j
    return out


def is_valid(sig):
    try:
        split(sig)
        return True
    except SigError:
        return False


def fields(ct):
    """Component types of a struct or dict-entry complete type."""
    assert ct[0] in '({'
    return split(ct[1:-1])


def depth(sig):
    d = m = 0
    for c in sig:
        if c in 'a({':
            d += 1
            m = max(m, d)
        elif c in ')}':
            d -= 1
        if c not in 'a(){}' and sig:
            pass
    # arrays close implicitly; approximate: count bracket depth + consecutive 'a's
    return m


def enumerate_types(max_codes, max_depth):
    """Every single complete type with at most max_codes type codes (brackets count as one
    code per pair) and container nesting <= max_depth. Deterministic order."""
    memo = {}

    def gen(n, d):
        # complete types using exactly n codes, nesting <= d
        key = (n, d)
        if key in memo:
            return memo[key]
        out = []
        if n == 1:
            out.extend(BASIC)
            out.append('v')
        if d > 0 and n >= 2:
            for t in gen(n - 1, d - 1):
                out.append('a' + t)
            # dict entries: a{kv}: codes = 1 (a) + 1 ({}) + 1 (k) + codes(v)
            if n >= 4:
                for k in BASIC:
                    for v in gen(n - 3, d - 1):
                        out.append('a{' + k + v + '}')
            # structs: 1 + sum(fields)
            for fl in seqs(n - 1, d - 1):
                out.append('(' + ''.join(fl) + ')')
        memo[key] = out
        return out

    def seqs(n, d):
        # non-empty sequences of complete types using exactly n codes in total
        if n <= 0:
            return []
        out = []
        for first in range(1, n + 1):
            for t in gen(first, d):
                if first == n:
                    out.append([t])
                else:
                    for rest in seqs(n - first, d):
                        out.append([t] + rest)
        return out

    res = []
    for n in range(1, max_codes + 1):
        res.extend(gen(n, max_depth))
    return res
