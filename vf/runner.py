"""
Obligation runner: property module -> obligations -> worker pool -> verdicts ->
replay -> evidence file + exit status.   (DESIGN.md sections 1.6, 1.7)

  python -m vf.runner C01 --tier quick
exit 0: every obligation held (or is a listed known finding)
exit 1: a reproduced violation        (VIOLATION property=.. replay=..)
exit 3: harness error (a counterexample that does not reproduce, a broken oracle, ..)
"""
import argparse
import hashlib
import importlib
import json
import multiprocessing as mp
import os
import signal
import subprocess
import sys
import time
import traceback
from dataclasses import dataclass, field, asdict
from typing import Any, Dict, List, Optional

VERIF = os.path.dirname(os.path.dirname(os.path.abspath(__file__)))
REPO = os.environ.get('VERIF_REPO', '/repo')
NPROC = int(os.environ.get('VERIF_JOBS', '0')) or (os.cpu_count() or 4)


@dataclass
class Ob:
    id: str
    family: str
    params: Any
    timeout: float = 60.0          # CPU seconds for the whole decision tree
    path_timeout: float = 20.0
    twin: bool = False             # also run the reachability twin
    functions: tuple = ()          # qualified names in /repo this obligation encodes
    bounds: str = ''
    weight: float = 1.0            # scheduling hint (bigger first)


class HardTimeout(BaseException):
    pass


def _alarm(signum, frame):
    raise HardTimeout()


def quiet_twisted():
    """twisted.python.log prints unhandled Deferred failures to stderr when nothing observes the log."""
    try:
        from twisted.python import log
        if getattr(log, 'defaultObserver', None) is not None:
            log.defaultObserver.stop()
            log.defaultObserver = None
    except Exception:
        pass
    try:
        from twisted.logger import globalLogBeginner
        import io
        globalLogBeginner.beginLoggingTo([lambda e: None], redirectStandardIO=False, discardBuffer=True)
    except Exception:
        pass


def _setup_paths():
    for p in (VERIF, REPO):
        if p in sys.path:
            sys.path.remove(p)
    sys.path.insert(0, REPO)
    sys.path.insert(0, VERIF)


def to_jsonable(x):
    if isinstance(x, (list, tuple)):
        return [to_jsonable(i) for i in x]
    if isinstance(x, bool) or x is None or isinstance(x, (int, str)):
        return x
    if isinstance(x, float):
        return {'__float__': repr(x)}
    if isinstance(x, (bytes, bytearray)):
        return {'__bytes__': list(x)}
    if isinstance(x, dict):
        if all(isinstance(k, str) and not k.startswith('__') for k in x):
            return {k: to_jsonable(v) for k, v in x.items()}
        return {'__dict__': [[to_jsonable(k), to_jsonable(v)] for k, v in x.items()]}
    return {'__repr__': repr(x)}


def from_jsonable(x, tuples=True):
    if isinstance(x, list):
        seq = [from_jsonable(i, tuples) for i in x]
        return tuple(seq) if tuples else seq
    if isinstance(x, dict):
        if '__float__' in x:
            return float(x['__float__'])
        if '__bytes__' in x:
            return bytes(x['__bytes__'])
        if '__dict__' in x:
            return {from_jsonable(k, True): from_jsonable(v, tuples) for k, v in x['__dict__']}
        if '__repr__' in x:
            raise ValueError('unreplayable value %r' % (x,))
        return {k: from_jsonable(v, tuples) for k, v in x.items()}
    return x


# --------------------------------------------------------------------------- worker

def _load_known(prop):
    path = os.environ.get('VERIF_FINDINGS') or os.path.join(VERIF, 'findings', 'known_findings.json')
    try:
        with open(path) as f:
            data = json.load(f)
    except FileNotFoundError:
        return []
    return [k for k in data.get('known', []) if k['property'] == prop]


def _matching_known(known, ob_id):
    import fnmatch
    return [k for k in known if fnmatch.fnmatchcase(ob_id, k['obligation'])]


def _wrap_excluding(spec, regions):
    """assume(not region) for every listed known finding of this obligation."""
    if not regions:
        return spec
    from .engine import Spec, assume
    names = [n for n, _ in spec.params]
    codes = [compile(r, '<region>', 'eval') for r in regions]
    inner = spec.fn

    def fn(*args):
        env = dict(zip(names, args))
        for c in codes:
            assume(not eval(c, {}, env))
        return inner(*args)
    fn.__name__ = getattr(inner, '__name__', 'h')
    fn.__module__ = inner.__module__
    fn.__code__ = fn.__code__.replace(co_firstlineno=inner.__code__.co_firstlineno,
                                      co_filename=inner.__code__.co_filename)
    import dataclasses
    return dataclasses.replace(spec, fn=fn)


def replay_subprocess(prop, family, params, args, twin=False, timeout=60):
    """Fresh interpreter, no CrossHair: does the harness fail on these inputs?"""
    payload = json.dumps({'prop': prop, 'family': family, 'params': to_jsonable(params),
                          'args': to_jsonable(args), 'twin': twin})
    env = dict(os.environ)
    env['VERIF_REPO'] = REPO
    try:
        p = subprocess.run([sys.executable, '-m', 'vf.replay', '--json', payload],
                           cwd=VERIF, env=env, capture_output=True, text=True,
                           timeout=timeout)
    except subprocess.TimeoutExpired:
        return 'hang', 'replay did not finish in %ds' % timeout
    out = p.stdout.strip().splitlines()
    if not out:
        return 'harness', 'replay produced no output: ' + p.stderr[-2000:]
    try:
        d = json.loads(out[-1])
    except Exception:
        return 'harness', 'bad replay output: ' + p.stdout[-500:] + p.stderr[-1500:]
    return d['outcome'], d.get('text', '')


def _work(prop, ob: Ob, known, do_twin):
    """Runs in a worker. Returns a dict."""
    from . import engine, plugin
    t0 = time.time()
    out: Dict[str, Any] = {'id': ob.id, 'family': ob.family, 'status': 'UNKNOWN',
                           'paths': 0, 'queries': 0, 'solver_s': 0.0, 'cpu_s': 0.0}
    mod = importlib.import_module('vf.props.' + prop.lower())
    try:
        engine.TWIN = False
        spec = mod.build(ob.family, ob.params)
    except Exception as e:
        out.update(status='HARNESS_ERROR', message='build failed: %r' % (e,),
                   detail=traceback.format_exc())
        return out
    spec.per_condition_timeout = ob.timeout
    spec.per_path_timeout = ob.path_timeout
    kfs = _matching_known(known, ob.id)
    regions = [k['region'] for k in kfs]
    hard = int(ob.timeout * 3 + 60)

    # ---- smoke pass: concrete witnesses (also validates oracles against upstream vectors)
    names = [n for n, _ in spec.params]
    out['witnesses'] = len(spec.witnesses)
    for w in spec.witnesses:
        env = dict(zip(names, w))
        if any(eval(r, {}, env) for r in regions):
            continue
        signal.signal(signal.SIGALRM, _alarm)
        signal.alarm(20)
        try:
            oc, text = engine.run_concrete(spec.fn, w)
        except HardTimeout:
            oc, text = 'hang', 'witness run did not finish in 20 s'
        finally:
            signal.alarm(0)
        if oc in ('violation', 'error', 'hang'):
            out.update(status='REFUTED', cex=to_jsonable(w), message='[witness] ' + text[:600],
                       stage='smoke')
            break
        if oc == 'harness':
            out.update(status='HARNESS_ERROR', message=text)
            return out
        if oc == 'outside':
            out.update(status='HARNESS_ERROR',
                       message='witness %r violates the harness assumptions' % (w,))
            return out

    # ---- symbolic analysis
    if out['status'] != 'REFUTED':
        aspec = _wrap_excluding(spec, regions)
        signal.signal(signal.SIGALRM, _alarm)
        signal.alarm(hard)
        try:
            r = engine.analyze(aspec)
            out.update(status=r.status, paths=r.paths, queries=r.queries,
                       solver_s=r.solver_s, cpu_s=r.cpu_s, message=r.message[:1500])
            if r.status == 'REFUTED':
                out['cex'] = to_jsonable(r.cex) if r.cex is not None else None
                out['stage'] = 'symbolic'
                out['detail'] = r.detail[-3000:]
            elif r.detail:
                out['detail'] = r.detail[-3000:]
        except HardTimeout:
            out.update(status='UNKNOWN', message='hard wall-clock limit (%ds) hit' % hard)
        finally:
            signal.alarm(0)

    # ---- replay of counterexamples on the plain interpreter
    if out['status'] == 'REFUTED':
        if out.get('cex') is None:
            out.update(status='HARNESS_ERROR',
                       message='refuted without recoverable inputs: ' + out.get('message', ''))
        else:
            oc, text = replay_subprocess(prop, ob.family, ob.params, from_jsonable(out['cex']))
            out['replay'] = oc
            out['replay_text'] = text[:3000]
            if oc not in ('violation', 'error', 'hang'):
                out['status'] = 'NOT_REPRODUCED'
                # state leaked between paths of this worker (e.g. a mutable class attribute in the code under
                # test) can make the first failing input non-reproducible: look for one that fails in a fresh
                # interpreter before giving up
                for w in spec.witnesses:
                    oc2, text2 = replay_subprocess(prop, ob.family, ob.params, w)
                    if oc2 in ('violation', 'error', 'hang'):
                        out.update(status='REFUTED', cex=to_jsonable(w), replay=oc2, replay_text=text2[:3000],
                                   message='[witness, fresh interpreter] ' + text2[:600], stage='fresh-witness')
                        break

    # ---- reachability twin
    if do_twin and out['status'] == 'CONFIRMED':
        try:
            engine.TWIN = True
            tspec = _wrap_excluding(mod.build(ob.family, ob.params), regions)
            tspec.per_condition_timeout = ob.timeout
            tspec.per_path_timeout = ob.path_timeout
            signal.signal(signal.SIGALRM, _alarm)
            signal.alarm(hard)
            try:
                tr = engine.analyze(tspec)
            finally:
                signal.alarm(0)
            out['twin'] = tr.status
            out['twin_paths'] = tr.paths
            if tr.status == 'REFUTED' and 'reached' in tr.message:
                out['twin'] = 'REACHED'
                out['twin_cex'] = to_jsonable(tr.cex)
            else:
                out['twin_message'] = tr.message[:300]
        except HardTimeout:
            out['twin'] = 'UNKNOWN'
        finally:
            engine.TWIN = False

    # ---- known findings attached to this obligation: replay their witnesses
    kf_out = []
    for k in kfs:
        oc, text = replay_subprocess(prop, ob.family, ob.params, from_jsonable(k['witness']))
        kf_out.append({'key': k['key'], 'text': k['text'], 'still_fails': oc in
                       ('violation', 'error', 'hang'), 'outcome': oc})
    out['known'] = kf_out
    out['wall_s'] = time.time() - t0
    return out


def _worker_main(conn, prop, do_twin):
    _setup_paths()
    os.environ.setdefault('PYTHONHASHSEED', '0')
    known = _load_known(prop)
    try:
        from . import plugin
        plugin.install()
        import txdbus.marshal  # noqa
        plugin.install_wrappers()
        quiet_twisted()
    except Exception:
        conn.send(('fatal', traceback.format_exc()))
        return
    while True:
        try:
            ob = conn.recv()
        except EOFError:
            return
        if ob is None:
            return
        try:
            res = _work(prop, ob, known, do_twin and ob.twin)
        except BaseException as e:  # noqa
            internal = type(e).__name__ in ('CrossHairInternal', 'Z3Exception', 'MemoryError', 'RecursionError')
            res = {'id': ob.id, 'family': ob.family, 'status': 'UNKNOWN' if internal else 'HARNESS_ERROR',
                   'message': ('engine failure (inconclusive): %r' if internal else 'worker crashed: %r') % (e,),
                   'detail': traceback.format_exc()}
        conn.send(('done', res))


class Pool:
    def __init__(self, prop, n, do_twin):
        self.prop, self.n, self.do_twin = prop, n, do_twin
        self.ctx = mp.get_context('fork')
        self.workers = []

    def _spawn(self):
        a, b = self.ctx.Pipe()
        p = self.ctx.Process(target=_worker_main, args=(b, self.prop, self.do_twin), daemon=True)
        p.start()
        b.close()
        return {'proc': p, 'conn': a, 'ob': None, 'start': 0.0, 'ntasks': 0}

    def run(self, obs: List[Ob], progress=None):
        from multiprocessing.connection import wait
        queue = sorted(obs, key=lambda o: -o.weight * o.timeout)
        results = {}
        self.workers = [self._spawn() for _ in range(min(self.n, max(1, len(queue))))]
        pending = len(queue)
        while pending:
            for w in self.workers:
                if w['ob'] is None and queue:
                    ob = queue.pop(0)
                    w['ob'], w['start'] = ob, time.time()
                    w['conn'].send(ob)
            busy = [w for w in self.workers if w['ob'] is not None]
            ready = wait([w['conn'] for w in busy], timeout=1.0)
            now = time.time()
            for i, w in enumerate(self.workers):
                ob = w['ob']
                if ob is None:
                    continue
                if w['conn'] in ready:
                    try:
                        kind, res = w['conn'].recv()
                    except (EOFError, ConnectionResetError):
                        kind, res = 'done', {'id': ob.id, 'family': ob.family, 'status': 'UNKNOWN',
                                             'message': 'worker died (memory?)'}
                        w['proc'].kill()
                        self.workers[i] = self._spawn()
                        w = self.workers[i]
                    if kind == 'fatal':
                        raise RuntimeError('worker could not start:\n' + res)
                    results[ob.id] = res
                    pending -= 1
                    w['ob'] = None
                    w['ntasks'] += 1
                    if progress:
                        progress(res)
                    if w['ntasks'] >= 40:      # bound per-process memory growth
                        w['conn'].send(None)
                        w['proc'].join(2)
                        self.workers[i] = self._spawn()
                elif now - w['start'] > ob.timeout * 8 + 300:
                    w['proc'].kill()
                    results[ob.id] = {'id': ob.id, 'family': ob.family, 'status': 'UNKNOWN',
                                      'message': 'killed by the pool watchdog'}
                    pending -= 1
                    if progress:
                        progress(results[ob.id])
                    self.workers[i] = self._spawn()
        for w in self.workers:
            try:
                w['conn'].send(None)
            except Exception:
                pass
        for w in self.workers:
            w['proc'].join(2)
            if w['proc'].is_alive():
                w['proc'].kill()
        return results


# --------------------------------------------------------------------------- main

def _function_hashes(names):
    import inspect
    out = {}
    for qn in sorted(set(names)):
        modname, _, attr = qn.partition(':')
        try:
            obj = importlib.import_module(modname)
            for part in attr.split('.'):
                obj = getattr(obj, part)
            src = inspect.getsource(obj)
            out[qn] = hashlib.sha256(src.encode()).hexdigest()[:16]
        except Exception as e:
            out[qn] = 'unavailable: %r' % (e,)
    return out


def _missing_internals(prop):
    import glob
    import re
    try:
        with open(os.path.join(VERIF, 'vf', 'internals.json')) as f:
            wanted = json.load(f).get(prop, [])
    except OSError:
        return []
    repo = os.environ.get('VERIF_REPO', '/repo')
    src = ''
    for fn in glob.glob(os.path.join(repo, 'txdbus', '*.py')):
        with open(fn, errors='replace') as f:
            src += f.read()
    have = set(re.findall(r'\b_[A-Za-z][A-Za-z0-9_]*\b', src))
    return [n for n in wanted if n not in have]


def main(argv=None):
    ap = argparse.ArgumentParser()
    ap.add_argument('prop')
    ap.add_argument('--tier', default=os.environ.get('VERIF_TIER', 'quick'),
                    choices=['quick', 'thorough'])
    ap.add_argument('--only', default=None, help='substring filter on obligation ids')
    ap.add_argument('--jobs', type=int, default=NPROC)
    ap.add_argument('--no-evidence', action='store_true')
    ap.add_argument('-v', action='store_true')
    args = ap.parse_args(argv)
    prop = args.prop.upper()
    seed = int(os.environ.get('VERIF_SEED', '0') or 0)
    _setup_paths()
    t0 = time.time()
    missing = _missing_internals(prop)
    if missing:
        # The harnesses drive the real classes through these private names (serial counter, framing
        # buffer, pending-call table ...).  On a tree that no longer has them the harness would talk
        # past the code, so no verdict is given: this is a harness error, never a violation.
        print('HARNESS-ERROR property=%s internal names the harness drives are not in this tree: %s '
              '(vf/internals.json); no verdict' % (prop, ', '.join(missing)))
        return 3
    mod = importlib.import_module('vf.props.' + prop.lower())
    obs: List[Ob] = mod.obligations(args.tier)
    if args.only:
        obs = [o for o in obs if args.only in o.id]
    ids = [o.id for o in obs]
    assert len(ids) == len(set(ids)), 'duplicate obligation ids'
    do_twin = True

    def progress(res):
        if args.v or res['status'] not in ('CONFIRMED',):
            print('  [%s] %s %s paths=%s %.1fs %s' % (
                prop, res['status'], res['id'], res.get('paths'), res.get('wall_s', 0),
                (res.get('message') or '')[:200].replace('\n', ' ')), flush=True)

    pool = Pool(prop, args.jobs, do_twin)
    results = pool.run(obs, progress)

    # ---------------- extra (non-CrossHair) solver obligations provided by the module
    extra = []
    if hasattr(mod, 'direct'):
        extra = mod.direct(args.tier)     # list of dict(id,status,queries,solver_s,message,..)
        for e in extra:
            results[e['id']] = e
            progress(e)

    known = _load_known(prop)
    violations, harness_errors, inconclusive, kf_lines = [], [], [], []
    os.makedirs(os.path.join(VERIF, 'replays'), exist_ok=True)
    obmap = {o.id: o for o in obs}
    n_conf = n_nontrivial = 0
    for oid, r in sorted(results.items()):
        st = r['status']
        if st == 'CONFIRMED':
            n_conf += 1
            ob = obmap.get(oid)
            if ob is not None and ob.twin:
                if r.get('twin') == 'REACHED':
                    n_nontrivial += 1
                else:
                    inconclusive.append((oid, 'twin not reached: %s %s' % (
                        r.get('twin'), r.get('twin_message', ''))))
            elif r.get('nontrivial'):
                n_nontrivial += 1
        elif st == 'REFUTED':
            violations.append(r)
        elif st in ('NOT_REPRODUCED', 'HARNESS_ERROR'):
            harness_errors.append(r)
        else:
            inconclusive.append((oid, r.get('message', '')[:300]))
        for k in r.get('known', []):
            if k['still_fails']:
                kf_lines.append((k['key'], k['text']))
    seen = set()
    for key, text in kf_lines:
        if key in seen:
            continue
        seen.add(key)
        print('KNOWN-FINDING: property=%s %s' % (prop, text))

    replay_paths = []
    for n, r in enumerate(violations):
        ob = obmap.get(r['id'])
        path = os.path.join(VERIF, 'replays', '%s-%d.json' % (prop, n))
        with open(path, 'w') as f:
            json.dump({'property': prop, 'obligation': r['id'], 'family': r['family'],
                       'params': to_jsonable(ob.params) if ob else to_jsonable(r.get('params')),
                       'args': r.get('cex'), 'message': r.get('message'),
                       'replay_outcome': r.get('replay'), 'replay_text': r.get('replay_text'),
                       'how': 'cd /verif && ./check %s --replay %s' % (prop, path)}, f, indent=1)
        replay_paths.append(path)
        print('VIOLATION property=%s replay=%s' % (prop, path))
        print('   obligation=%s inputs=%s :: %s' % (
            r['id'], r.get('cex'), (r.get('replay_text') or r.get('message') or '')[:400]
            .replace('\n', ' | ')))
    for oid, why in inconclusive:
        print('INCONCLUSIVE property=%s obligation=%s %s' % (prop, oid, why))
    for r in harness_errors:
        print('HARNESS-ERROR property=%s obligation=%s %s %s' % (
            prop, r['id'], r['status'], (r.get('message') or '')[:600]))
        if args.v and r.get('detail'):
            print(r['detail'])

    wall = time.time() - t0
    if not args.no_evidence and not args.only:
        fnames = set()
        for o in obs:
            fnames.update(o.functions)
        for e in extra:
            fnames.update(e.get('functions', ()))
        samples = []
        byfam = {}
        for o in obs:
            byfam.setdefault(o.family, []).append(o)
        for fam, lst in sorted(byfam.items()):
            o = lst[0]
            r = results.get(o.id, {})
            samples.append({'obligation': o.id, 'family': fam, 'params': to_jsonable(o.params),
                            'bounds': o.bounds, 'status': r.get('status'),
                            'paths': r.get('paths'), 'twin_input': r.get('twin_cex')})
        for e in extra[:4]:
            samples.append({k: e.get(k) for k in ('id', 'status', 'message', 'bounds')})
        fam_stats = {}
        for o in obs:
            r = results.get(o.id, {})
            fs = fam_stats.setdefault(o.family, {'obligations': 0, 'confirmed': 0, 'paths': 0,
                                                 'queries': 0, 'solver_s': 0.0, 'bounds': o.bounds})
            fs['obligations'] += 1
            fs['confirmed'] += r.get('status') == 'CONFIRMED'
            fs['paths'] += r.get('paths') or 0
            fs['queries'] += r.get('queries') or 0
            fs['solver_s'] = round(fs['solver_s'] + (r.get('solver_s') or 0.0), 3)
        total = len(results)
        ev = {
            'property_id': prop, 'tier': args.tier, 'seed': seed, 'level': 'other',
            'coverage': {
                'explanation': getattr(mod, 'EXPLANATION', '') or
                'bounded symbolic execution of the real txdbus code (CrossHair + z3); every '
                'obligation is a harness over symbolic inputs whose decision tree was exhausted',
                'obligations': total,
                'discharged': n_conf,
                'evaluations': sum((r.get('paths') or 0) + (r.get('twin_paths') or 0)
                                   for r in results.values()),
                'distinct_nontrivial': n_nontrivial,
                'rule': 'one obligation = one harness instantiation (family + concrete shape) '
                        'explored over all paths of its symbolic inputs; non-trivial = confirmed '
                        'AND its reachability twin (same harness, final assert False) was '
                        'refuted, i.e. the assertion is reached by some input; evaluations = '
                        'execution paths explored, each standing for all inputs taking that path',
                'samples': samples,
                'families': fam_stats,
                'queries': sum(r.get('queries') or 0 for r in results.values()),
                'solver_s': round(sum(r.get('solver_s') or 0.0 for r in results.values()), 2),
                'inconclusive': [{'obligation': o, 'why': w} for o, w in inconclusive],
                'harness_errors': [r['id'] for r in harness_errors],
                'functions': _function_hashes(fnames),
                'bounds': getattr(mod, 'BOUNDS', {}).get(args.tier, ''),
                'stubs': getattr(mod, 'STUBS', []),
                'known_findings_seen': sorted(seen),
                'checker_cmd': './check %s --tier %s' % (prop, args.tier),
                'trusted_base': ['CrossHair 0.0.110 symbolic executor + vf/plugin.py model '
                                 'corrections', 'z3 5.1.0', 'reference oracles under vf/ref_*'],
                'exhaustive': False,
            },
            'assumptions': list(getattr(mod, 'ASSUMPTIONS', [])),
            'wall_s': round(wall, 2),
            'violations': len(violations),
        }
        os.makedirs(os.path.join(VERIF, 'evidence'), exist_ok=True)
        with open(os.path.join(VERIF, 'evidence', prop + '.json'), 'w') as f:
            json.dump(ev, f, indent=1, sort_keys=True)
    print('%s %s: %d obligations, %d confirmed (%d non-trivial), %d violations, %d inconclusive, '
          '%d harness errors, %.1fs' % (prop, args.tier, len(results), n_conf, n_nontrivial,
                                        len(violations), len(inconclusive), len(harness_errors),
                                        wall))
    if violations:
        return 1
    if harness_errors:
        return 3
    return 0


if __name__ == '__main__':
    sys.exit(main())
