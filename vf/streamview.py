"""
Stream-view proxy for BasicDBusProtocol.dataReceived (DESIGN.md 1.3, C04).

An abstract byte stream holds k framed messages.  For message j the solver chooses
  b0_j        the endianness byte (assumed 'l' or 'B')
  body_j[4]   the 4 stored bytes of the body-length field
  harr_j[4]   the 4 stored bytes of the header-array-length field
so every length < 2^32 in either byte order is covered.  All other bytes are arbitrary and never
inspected by framing code; if they are read anyway a fresh unconstrained byte is returned.

StreamView(stream, lo, hi) stands for stream[lo:hi] with symbolic bounds and supports exactly what
dataReceived does with a byte string: +, len, bool, slicing, [:1] != b'l', 4-byte struct.unpack.
"""
import struct as _real_struct

from .engine import HarnessError


class Stream:
    def __init__(self, b0s, bodies, harrs):
        # b0s: list of ints; bodies/harrs: list of 4-tuples of ints (stored byte order)
        self.k = len(b0s)
        self.b0 = list(b0s)
        self.body = [list(b) for b in bodies]
        self.harr = [list(b) for b in harrs]
        self.start = [0]
        self.total = []
        for j in range(self.k):
            little = self.b0[j] == 108
            bl = self._val(self.body[j], little)
            hl = self._val(self.harr[j], little)
            h = 16 + hl
            t = h + ((-h) % 8) + bl
            self.total.append(t)
            self.start.append(self.start[j] + t)
        self.fresh = None     # callable returning an arbitrary byte (set by the harness)

    @staticmethod
    def _val(b, little):
        if little:
            return b[0] + b[1] * 256 + b[2] * 65536 + b[3] * 16777216
        return b[3] + b[2] * 256 + b[1] * 65536 + b[0] * 16777216

    def byte(self, p):
        for j in range(self.k):
            rel = p - self.start[j]
            if rel == 0:
                return self.b0[j]
            for i in range(4):
                if rel == 4 + i:
                    return self.body[j][i]
                if rel == 12 + i:
                    return self.harr[j][i]
        return self.fresh()

    def u32(self, p, little):
        bs = [self.byte(p + i) for i in range(4)]
        return self._val(bs, little)


class StreamView:
    def __init__(self, stream, lo, hi):
        self.stream, self.lo, self.hi = stream, lo, hi

    def __len__(self):
        return self.hi - self.lo

    def __bool__(self):
        if self.hi > self.lo:
            return True
        return False

    def __add__(self, other):
        if isinstance(other, StreamView):
            if len(other) == 0:
                return self
            if len(self) == 0:
                return other
            if other.lo != self.hi:
                raise HarnessError('concatenation of non-adjacent views')
            return StreamView(self.stream, self.lo, other.hi)
        if isinstance(other, (bytes, bytearray)) and len(other) == 0:
            return self
        return NotImplemented

    def __radd__(self, other):
        if isinstance(other, (bytes, bytearray)) and len(other) == 0:
            return self
        return NotImplemented

    def __getitem__(self, idx):
        if not isinstance(idx, slice) or idx.step is not None:
            raise HarnessError('only plain slices are modelled')
        n = self.hi - self.lo
        a = 0 if idx.start is None else idx.start
        b = n if idx.stop is None else idx.stop
        if a < 0:
            a = a + n
            if a < 0:
                a = 0
        if b < 0:
            b = b + n
            if b < 0:
                b = 0
        if a > n:
            a = n
        if b > n:
            b = n
        if b < a:
            b = a
        return StreamView(self.stream, self.lo + a, self.lo + b)

    def _bytes_eq(self, other):
        if isinstance(other, StreamView):
            return other.lo == self.lo and other.hi == self.hi
        if isinstance(other, (bytes, bytearray)):
            n = self.hi - self.lo
            if n != len(other):
                return False
            for i in range(len(other)):
                if self.stream.byte(self.lo + i) != other[i]:
                    return False
            return True
        return NotImplemented

    def __eq__(self, other):
        return self._bytes_eq(other)

    def __ne__(self, other):
        r = self._bytes_eq(other)
        if r is NotImplemented:
            return r
        return not r

    __hash__ = None


class StructShim:
    """Stands in for the `struct` module inside txdbus.protocol."""

    def __init__(self):
        self.error = _real_struct.error
        self.calcsize = _real_struct.calcsize
        self.pack = _real_struct.pack

    def unpack(self, fmt, buf):
        if isinstance(buf, StreamView):
            if fmt not in ('<I', '>I'):
                raise HarnessError('unexpected unpack format %r on the stream' % (fmt,))
            if len(buf) != 4:
                raise _real_struct.error('unpack requires a buffer of 4 bytes')
            return (buf.stream.u32(buf.lo, fmt == '<I'),)
        return _real_struct.unpack(fmt, buf)

    def unpack_from(self, fmt, buf, offset=0):
        return _real_struct.unpack_from(fmt, buf, offset)
