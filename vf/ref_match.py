"""Match-rule semantics from the DBus specification ("Match Rules")."""
MTYPES = {'method_call': 1, 'method_return': 2, 'error': 3, 'signal': 4}


def path_ns_match(ns, path):
    if path is None:
        return False
    if ns == '/':
        return True
    return path == ns or path.startswith(ns + '/')


def arg_path_match(val, arg):
    if not isinstance(arg, str):
        return False
    if arg == val:
        return True
    if val.endswith('/') and arg.startswith(val):
        return True
    if arg.endswith('/') and val.startswith(arg):
        return True
    return False


def match(rule, msg):
    """rule: dict with optional keys mtype, interface, member, path, path_namespace, destination,
    args [(idx, val)], arg_paths [(idx, val)].   msg: object with the message attributes."""
    if rule.get('mtype') is not None:
        if MTYPES.get(rule['mtype']) != msg._messageType:
            return False
    for k in ('interface', 'member', 'path', 'destination'):
        if rule.get(k) is not None and getattr(msg, k, None) != rule[k]:
            return False
    if rule.get('path_namespace') is not None:
        if not path_ns_match(rule['path_namespace'], getattr(msg, 'path', None)):
            return False
    body = msg.body if msg.body is not None else []
    for idx, val in rule.get('args') or []:
        if idx >= len(body) or not isinstance(body[idx], str) or body[idx] != val:
            return False
    for idx, val in rule.get('arg_paths') or []:
        if idx >= len(body) or not arg_path_match(val, body[idx]):
            return False
    return True


def render(rule):
    """Rule text as the specification writes it."""
    parts = []
    for key, name in (('mtype', 'type'), ('sender', 'sender'), ('interface', 'interface'), ('member', 'member'),
                      ('path', 'path'), ('path_namespace', 'path_namespace'), ('destination', 'destination')):
        if rule.get(key) is not None:
            parts.append("%s='%s'" % (name, rule[key]))
    for idx, val in rule.get('args') or []:
        parts.append("arg%d='%s'" % (idx, val))
    for idx, val in rule.get('arg_paths') or []:
        parts.append("arg%dpath='%s'" % (idx, val))
    return parts


def parse(text):
    """Rule text -> constraint dict (values without quotes)."""
    rule = {}
    if not text:
        return rule
    for item in text.split(','):
        k, _, v = item.partition('=')
        v = v.strip("'")
        if k == 'type':
            rule['mtype'] = v
        elif k.startswith('arg') and k.endswith('path') and k[3:-4].isdigit():
            rule.setdefault('arg_paths', []).append((int(k[3:-4]), v))
        elif k.startswith('arg') and k[3:].isdigit():
            rule.setdefault('args', []).append((int(k[3:]), v))
        else:
            rule[k] = v
    return rule
